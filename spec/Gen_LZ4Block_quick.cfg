SPECIFICATION Spec
CONSTANTS
  Tier = "quick"
  Mode = "all"
INVARIANT Emit
CHECK_DEADLOCK FALSE
