----------------------------- MODULE Lz4c_Trace -----------------------------
(* Trace validation of recorded lz4c runs against Lz4c!RunOK. *)
EXTENDS Lz4c

CONSTANT TraceFile
Trace == ndJsonDeserialize(TraceFile)
VARIABLE l
TraceInit == l = 1 /\ phase = 0 /\ c = [x |-> 0]
TrRun == l <= Len(Trace) /\ Trace[l].ev = "lz4c" /\ RunOK(Trace[l]) /\ l' = l + 1 /\ UNCHANGED <<phase, c>>
TraceSpec == TraceInit /\ [][TrRun]_<<l, phase, c>>
TraceAccepted == TLCGet("stats").diameter = Len(Trace) + 1
=============================================================================
