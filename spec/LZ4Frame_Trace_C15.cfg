SPECIFICATION TraceSpec
CONSTANTS
  TraceFile = "trace.ndjson"
  Prop = "C15"
POSTCONDITION TraceAccepted
CHECK_DEADLOCK FALSE
