----------------------------- MODULE Writer_Trace -----------------------------
(***************************************************************************)
(* Trace validation of recorded Writer call histories against Writer.tla.  *)
(* One TLC run validates the cases of one block size (CONSTANT B, Legacy). *)
(*                                                                         *)
(* Events                                                                  *)
(*   wnew   conc bcs hdr      a new Writer with its options (hdr = header  *)
(*                            length in bytes: 7, 15, or 4 for legacy)     *)
(*   wcall  op n ret err dcalls dsink [dec decsame]                        *)
(*                            one public call: requested bytes, returned   *)
(*                            count, error class, number of sink Write     *)
(*                            calls and sink bytes during the call; for    *)
(*                            Flush on a sequential Writer the decoded     *)
(*                            length of the sink so far and whether it     *)
(*                            equals the accepted input                    *)
(*   wend   seg blocks status same consumed segLen contentLen               *)
(*                            the seg-th sink segment (bytes written       *)
(*                            between two Resets) parsed by the reference  *)
(*                            parser: decoded block lengths, strict        *)
(*                            status, content = input accepted meanwhile   *)
(* Unlogged: which path (zero-copy / accumulate) Write took, compressed    *)
(* sizes.  Bound: lifecycle state through the error class, block cutting   *)
(* through the sink-call count of every call (sequential Writer), final    *)
(* block lengths, conservation.                                            *)
(***************************************************************************)
EXTENDS Writer, TLC, Json

CONSTANTS TraceFile

Trace == ndJsonDeserialize(TraceFile)

VARIABLES l, conc, bcs, hdr, desc    \* desc: the descriptor the options imply <<flg, bd, csize>>

tvars == <<wvars, l, conc, bcs, hdr, desc>>

TraceInit == Init /\ l = 1 /\ conc = 1 /\ bcs = FALSE /\ hdr = 7 /\ desc = <<0, 0, <<>>>>

Ev(e) == l <= Len(Trace) /\ Trace[l].ev = e /\ l' = l + 1
Keep == UNCHANGED <<conc, bcs, hdr, desc>>

TrNew ==
    /\ Ev("wnew")
    /\ ws' = "new" /\ pending' = 0 /\ accepted' = 0 /\ items' = <<>> /\ frames' = <<>> /\ failed' = FALSE /\ done' = FALSE /\ hcalls' = 0
    /\ conc' = Trace[l].conc /\ bcs' = Trace[l].bcs /\ hdr' = Trace[l].hdr
    /\ desc' = <<Trace[l].flg, Trace[l].bd, Trace[l].csize>>

\* number of sink calls the items appended by this step must have caused (sequential Writer)
PerBlock == 2 + (IF bcs THEN 1 ELSE 0)
CallsOf(newItems) ==
    LET f[k \in 0 .. Len(newItems)] ==
          IF k = 0 THEN 0
          ELSE f[k - 1] + (IF IsBlock(newItems[k]) THEN PerBlock ELSE 1)
    IN  f[Len(newItems)]

NewItems == SubSeq(items', Len(items) + 1, Len(items'))

Sequential == conc = 1

\* a successful call: the action of Writer, the logged result, and (sequential) the sink-call count
Ok(r, act, ret) ==
    /\ r.err = "none" /\ r.ret = ret
    /\ act
    /\ (Sequential => r.dcalls = CallsOf(NewItems))

\* a call that reports an injected sink failure
\* (with a concurrent Writer the failing sink call may have happened during an earlier public call)
\* (lifefails: sink calls that failed since the last Reset - a failure is reported only if the sink has failed in this
\* life of the Writer; an error left over from the frame abandoned by Reset is not one)
Faulted(r) == r.err = "injected" /\ r.lifefails > 0 /\ SinkFails
\* Flush / Close as the first call that touches the sink: the failing sink call is the frame header (the first sink call
\* of this call) - init fails and the Writer is in error from then on, like everywhere else
HeaderFaulted(r) == r.err = "injected" /\ r.lifefails > 0 /\ ws = "new" /\ r.dcalls = 1 /\ SinkFails
FlushFaulted(r) == r.err = "injected" /\ r.lifefails > 0 /\ ~(ws = "new" /\ r.dcalls = 1) /\ FlushFails
\* after a failure that put the Writer in error, every call fails and nothing reaches the sink until Reset; after a
\* failure reported by Flush alone (not sticky, see Writer!FlushFails) C15 is silent about what the caller gets
AfterFailure(r) ==
    /\ failed /\ UNCHANGED wvars
    /\ (ws = "error" => r.err # "none" /\ (Sequential => r.dsink = 0))

\* a refused call: error class names the reason, nothing reaches the sink
Refused(r, act, classes) == r.err \in classes /\ r.ret = 0 /\ act /\ (Sequential => r.dcalls = 0)

TrCall ==
    /\ Ev("wcall") /\ Keep
    \* the lifecycle state the code reports after the call (verif accessor; "" when not logged) is the model's
    \* (not after a failure reported by Flush alone: the model does not follow the Writer there, see AfterFailure)
    /\ (Trace[l].st # "" /\ ~(failed /\ ws # "error") => ws' = Trace[l].st)
    /\ LET r == Trace[l]
       IN  CASE r.op # "reset" /\ failed -> AfterFailure(r)
             [] r.op = "write" ->
                  \/ Ok(r, Write(r.n), r.n)
                  \/ Faulted(r)
                  \/ Refused(r, WriteAfterClose, {"closed", "state", "optclosed", "injected", "other"})
             [] r.op = "flush" ->
                  \/ Ok(r, Flush, 0) /\ (Sequential => r.dec = accepted /\ r.decsame)
                  \/ FlushFaulted(r) \/ HeaderFaulted(r)
                  \/ (r.err = "none" /\ ws = "closed" /\ UNCHANGED wvars)       \* Flush after Close: no-op
                  \/ (r.err # "none" /\ ws = "error" /\ UNCHANGED wvars)
             [] r.op = "close" ->
                  \/ Ok(r, Close, 0)
                  \/ Faulted(r) \/ FlushFaulted(r) \/ HeaderFaulted(r)
                  \/ (r.err = "none" /\ CloseAgain /\ (Sequential => r.dcalls = 0))
                  \/ (r.err # "none" /\ ws = "error" /\ UNCHANGED wvars /\ (Sequential => r.dsink = 0))
             [] r.op = "readfrom" ->
                  \/ Ok(r, ReadFrom(r.n), r.n)
                  \/ Faulted(r)
                  \/ (r.err # "none" /\ ReadFromLate /\ (Sequential => r.dsink = 0))
                  \/ (r.err # "none" /\ ws = "error" /\ UNCHANGED wvars /\ (Sequential => r.dsink = 0))
             [] r.op = "reset" -> Reset
             [] r.op = "apply" ->
                  \/ (r.err = "none" /\ ws = "new" /\ UNCHANGED wvars)
                  \/ (r.err # "none" /\ ApplyLate)
                  \/ (r.err # "none" /\ ws = "error" /\ UNCHANGED wvars)

\* blocks of an item list
BlocksOf(s) == SelectSeq(s, IsBlock)

\* the k-th frame written by this Writer (k-th sink segment): archived by Reset, or the current one
FrameNo(k) ==
    IF k <= Len(frames) THEN frames[k]
    ELSE [items |-> items, closed |-> done, accepted |-> accepted, hcalls |-> hcalls]

TrEnd ==
    /\ Ev("wend") /\ Keep /\ UNCHANGED wvars
    /\ LET r == Trace[l]
           f == FrameNo(r.seg)
       IN  /\ r.seg <= Len(frames) + 1
           /\ r.clean                                  \* C17(7): no panic, no runaway, every call returned
           \* C15: what reached the sink is a prefix of the fault-free output, and a sink failure has been
           \* reported by some call - by Close at the latest
           /\ r.sinkIsPrefix
           \* (injected / closecalled are about the life this segment belongs to; `failed' is the model's current life)
           /\ (r.seg = Len(frames) + 1 /\ r.injected /\ r.closecalled => failed)
           \* a frame closed without failure is complete, strictly valid and round-trips
           /\ f.closed =>
                 /\ r.status = "ok"
                 /\ r.same
                 /\ r.blocks = BlocksOf(f.items)
                 /\ r.contentLen = f.accepted
                 /\ r.consumed = r.segLen              \* nothing after the frame in its segment
                 \* OnBlockDone accounting (beyond the listed properties): the handler ran once per block, twice
                 \* per block cut by ReadFrom; with a sequential Writer its values add up to the stored sizes
                 /\ (r.single /\ r.handler /\ ~failed =>
                        /\ (Sequential => r.hcalls = f.hcalls)
                        /\ r.hcalls <= f.hcalls
                        /\ (Sequential /\ f.hcalls = Len(BlocksOf(f.items)) => r.hsum = r.storedsum))
                 \* C17(2): the options (set before the first write) are in force, also after Reset
                 \* (r.exp*: what the options in force for that life imply; they equal desc unless the Writer was
                 \* re-configured with Apply after a Reset)
                 /\ (~Legacy => <<r.flg, r.bd, r.csize>> = <<r.expflg, r.expbd, r.expcsize>>)
                 /\ (~Legacy /\ ~r.reconf => <<r.expflg, r.expbd, r.expcsize>> = desc)

TraceNext == TrNew \/ TrCall \/ TrEnd

TraceSpec == TraceInit /\ [][TraceNext]_tvars

TraceAccepted == TLCGet("stats").diameter = Len(Trace) + 1
=============================================================================
