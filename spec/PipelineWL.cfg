SPECIFICATION SpecL
CONSTANTS
  N = 4
  Num = 2
  FailAt = 2
  MaxLives = 3
INVARIANTS
  Ordered
  NoUseAfterPut
  ClosedMeansFlushedL
  LivesDoNotMix
  WorkersNeverBlockedAfterCloseL
PROPERTY EventuallyDoneL
