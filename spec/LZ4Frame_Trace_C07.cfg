SPECIFICATION TraceSpec
CONSTANTS
  TraceFile = "trace.ndjson"
  Prop = "C07"
POSTCONDITION TraceAccepted
CHECK_DEADLOCK FALSE
