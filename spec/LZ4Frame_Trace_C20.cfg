SPECIFICATION TraceSpec
CONSTANTS
  TraceFile = "trace.ndjson"
  Prop = "C20"
POSTCONDITION TraceAccepted
CHECK_DEADLOCK FALSE
