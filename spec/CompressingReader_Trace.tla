----------------------- MODULE CompressingReader_Trace -----------------------
(***************************************************************************)
(* Trace validation of recorded CompressingReader runs (C18).              *)
(*   cnew   groups             the piece layout of the frame this run will *)
(*                             produce (from the reference parser's view   *)
(*                             of the concatenated output and the options) *)
(*   ccall  plen n err st ovLen ovPos                                      *)
(*                             one Read(p): len(p), returned count, error  *)
(*                             class, and the state read through the verif *)
(*                             accessor right after the call               *)
(*   cend   total              bytes produced in all                       *)
(***************************************************************************)
EXTENDS CompressingReader, TLC, Json

CONSTANTS TraceFile

Trace == ndJsonDeserialize(TraceFile)

VARIABLE l

TraceInit == InitWith(<<>>) /\ l = 1

Ev(e) == l <= Len(Trace) /\ Trace[l].ev = e /\ l' = l + 1

\* cnew: NewCompressingReader, or Reset of a reader that served an earlier stream (possibly abandoned with
\* bytes parked in the overflow buffer): CompressingReader!Reset; rst / rov are the state observed after it
TrNew ==
    /\ Ev("cnew")
    /\ Trace[l].rst = "initial" /\ Trace[l].rov = 0
    /\ st' = "initial" /\ ovLen' = 0 /\ ovPos' = 0 /\ groups' = Trace[l].groups
    /\ produced' = 0 /\ delivered' = 0 /\ last' = [n |-> 0, err |-> "none"]

TrCall ==
    /\ Ev("ccall")
    /\ Read(Trace[l].plen)
    /\ last' = [n |-> Trace[l].n, err |-> Trace[l].err]
    /\ st' = Trace[l].st
    /\ ovLen' - ovPos' = Trace[l].ovLen - Trace[l].ovPos      \* bytes waiting in the overflow buffer
    /\ Trace[l].n <= Trace[l].plen

TrEnd ==
    /\ Ev("cend") /\ UNCHANGED cvars
    /\ Trace[l].poison = <<>>                       \* pool sensor: no buffer written after Put, none put twice
    /\ (st = "done" /\ last.err = "eof") => delivered = Trace[l].total /\ produced = Trace[l].total

TraceNext == TrNew \/ TrCall \/ TrEnd
TraceSpec == TraceInit /\ [][TraceNext]_<<cvars, l>>
TraceAccepted == TLCGet("stats").diameter = Len(Trace) + 1
=============================================================================
