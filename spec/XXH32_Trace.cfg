SPECIFICATION TraceSpec
CONSTANTS
  WriteLens <- TrWriteLens
  MaxWrites <- TrMaxWrites
  TraceFile = "trace.ndjson"
INVARIANTS
  StreamingRefinesOneShot
  BufInvariant
POSTCONDITION TraceAccepted
CHECK_DEADLOCK FALSE
