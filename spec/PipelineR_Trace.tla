--------------------------- MODULE PipelineR_Trace ---------------------------
(***************************************************************************)
(* Trace validation of the hook events recorded from a concurrent Reader   *)
(* against PipelineR.  Same logging discipline as PipelineW_Trace (events  *)
(* before sends and closes, after receives, one global order).  Relaxed    *)
(* for the trace: the block queue and the consumer channel are unbounded   *)
(* FIFOs (dataQ); the reader's source reads and error checks are not       *)
(* logged; the completion of a decoder's send is folded away.              *)
(* Bound: FIFO order of the queue (c.dequeue names the oldest channel),    *)
(* the order in which blocks reach the consumer (u.recv names the buffer   *)
(* at the head of dataQ), skipping after a decoder failure, the shutdown   *)
(* handshake, and the sensors of the run (pend).                           *)
(***************************************************************************)
EXTENDS PipelineR, TLC, Json

CONSTANTS TraceFile

Trace == ndJsonDeserialize(TraceFile)

VARIABLES l, dataQ, bufOf      \* dataQ: buffers sent towards the consumer; bufOf: block -> buffer number

tvars == <<vars, l, dataQ, bufOf>>

TraceInit == Init /\ l = 1 /\ dataQ = <<>> /\ bufOf = [i \in Blocks |-> 0]

Ev(e) == l <= Len(Trace) /\ Trace[l].ev = e /\ l' = l + 1
Ch == Trace[l].ch
KeepT == UNCHANGED <<dataQ, bufOf>>

TrReset ==
    /\ Ev("pnew")
    /\ rpc' = "check" /\ rnext' = 1 /\ rerr' = "none" /\ q' = <<>>
    /\ dpc' = [i \in Blocks |-> "idle"] /\ cpc' = "dequeue" /\ ccur' = 0 /\ skip' = FALSE
    /\ chan' = [i \in 1 .. Sentinel |-> "empty"] /\ data' = "empty" /\ dataVal' = 0
    /\ upc' = "recv" /\ got' = <<>> /\ latched' = "none" /\ result' = "none"
    /\ dataQ' = <<>> /\ bufOf' = [i \in Blocks |-> 0]

\* r.enqueue: the reader read block rnext from the source, queues its channel, starts the decoder
TrREnqueue ==
    /\ Ev("r.enqueue") /\ rpc = "check" /\ Ch = rnext /\ Ch \in Blocks
    /\ q' = Append(q, Ch)
    /\ dpc' = [dpc EXCEPT ![Ch] = "decode"]
    /\ rnext' = rnext + 1
    /\ UNCHANGED <<rpc, rerr, cpc, ccur, skip, chan, data, dataVal, upc, got, latched, result>> /\ KeepT

TrDStart == Ev("d.start") /\ Ch \in Blocks /\ dpc[Ch] = "decode" /\ UNCHANGED vars /\ KeepT

TrDFail ==
    /\ Ev("d.fail") /\ Ch \in Blocks /\ dpc[Ch] = "decode"
    /\ latched' = Latch("decode")
    /\ chan' = [chan EXCEPT ![Ch] = "closed"]
    /\ dpc' = [dpc EXCEPT ![Ch] = "done"]
    /\ UNCHANGED <<rpc, rnext, rerr, q, cpc, ccur, skip, data, dataVal, upc, got, result>> /\ KeepT

TrDOffer ==
    /\ Ev("d.offer") /\ Ch \in Blocks /\ dpc[Ch] = "decode" /\ chan[Ch] = "empty"
    /\ chan' = [chan EXCEPT ![Ch] = "full"]
    /\ dpc' = [dpc EXCEPT ![Ch] = "done"]                     \* the completion of the send is not logged
    /\ bufOf' = [bufOf EXCEPT ![Ch] = Trace[l].buf]
    /\ UNCHANGED <<rpc, rnext, rerr, q, cpc, ccur, skip, data, dataVal, upc, got, latched, result, dataQ>>

TrCDequeue == Ev("c.dequeue") /\ CDequeue /\ ccur' = Ch /\ KeepT

\* c.take: after the receive - a value (buf # 0 or the sentinel) or a closed channel
TrCTake ==
    /\ Ev("c.take") /\ cpc = "take" /\ ccur = Ch
    /\ \/ /\ chan[ccur] = "closed" /\ Trace[l].buf = 0 /\ ccur # Sentinel     \* a decoder failed
          /\ skip' = TRUE /\ cpc' = "dequeue" /\ UNCHANGED chan
       \/ /\ chan[ccur] = "full"
          /\ (ccur \in Blocks => Trace[l].buf = bufOf[ccur])
          /\ chan' = [chan EXCEPT ![ccur] = "taken"]
          /\ skip' = skip
          /\ cpc' = IF ccur = Sentinel THEN "closec" ELSE IF skip THEN "dequeue" ELSE "deliver"
    /\ UNCHANGED <<rpc, rnext, rerr, q, dpc, ccur, data, dataVal, upc, got, latched, result>> /\ KeepT

\* c.deliver: about to send the block to the consumer
TrCDeliver ==
    /\ Ev("c.deliver") /\ cpc = "deliver" /\ ccur = Ch
    /\ dataQ' = Append(dataQ, <<ccur, Trace[l].buf>>)
    /\ cpc' = "closec"
    /\ UNCHANGED <<rpc, rnext, rerr, q, dpc, ccur, skip, chan, data, dataVal, upc, got, latched, result, bufOf>>

TrCClose ==
    /\ Ev("c.close") /\ cpc = "closec" /\ ccur = Ch
    /\ chan' = [chan EXCEPT ![ccur] = "closed"]
    /\ cpc' = IF ccur = Sentinel THEN "done" ELSE "dequeue"
    /\ UNCHANGED <<rpc, rnext, rerr, q, dpc, ccur, skip, data, dataVal, upc, got, latched, result>> /\ KeepT

\* u.recv: the consumer received the oldest block sent to it, or nil from the closed channel
TrURecv ==
    /\ Ev("u.recv") /\ upc = "recv"
    /\ IF Trace[l].buf # 0
       THEN /\ dataQ # <<>> /\ Head(dataQ)[2] = Trace[l].buf
            /\ got' = Append(got, Head(dataQ)[1])
            /\ dataQ' = Tail(dataQ)
            \* a zero-length block is a block like any other (fix 062dfed): the consumer goes on
            /\ UNCHANGED <<upc, result>>
       ELSE /\ dataQ = <<>> /\ data = "closed"
            /\ result' = latched /\ upc' = "done"
            /\ UNCHANGED <<got, dataQ>>
    /\ UNCHANGED <<rpc, rnext, rerr, q, dpc, cpc, ccur, skip, chan, data, dataVal, latched, bufOf>>

\* the shutdown handshake of the reader goroutine; why the loop ended (end mark, source error, latched
\* decoder error) is not logged: the model chooses
TrRFinQ ==
    /\ Ev("r.finq") /\ rpc = "check" /\ Ch = Sentinel
    /\ q' = Append(q, Sentinel) /\ rpc' = "finsend"
    /\ rerr' \in {"eof", "source", "none"}
    /\ UNCHANGED <<rnext, dpc, cpc, ccur, skip, chan, data, dataVal, upc, got, latched, result>> /\ KeepT

TrRFinSend == Ev("r.finsend") /\ RFinSend /\ KeepT
TrRFinWait == Ev("r.finwait") /\ RFinWait /\ KeepT
TrRFinClose == Ev("r.finclose") /\ RFinClose /\ KeepT

TrEnd ==
    /\ Ev("pend") /\ UNCHANGED vars /\ KeepT
    /\ LET r == Trace[l]
       IN  /\ ~r.hung /\ r.panicked = "" /\ r.race = ""
           /\ r.poison = <<>>
           /\ r.leaked = 0                                   \* end of stream / source error / decoding error: nobody left
           /\ upc = "done"
           /\ (r.outcome = "clean" => result = "eof" /\ r.same)
           /\ (result = "eof" /\ ~r.mutated => r.outcome = "clean")
           /\ (result \in {"decode", "source"} => r.outcome = "error")

\* runs whose events are not replayed on the model (several lives of one object): sensors only
TrSens ==
    /\ Ev("psens") /\ UNCHANGED vars /\ KeepT
    /\ LET r == Trace[l]
       IN  ~r.hung /\ r.panicked = "" /\ r.race = "" /\ r.poison = <<>> /\ r.leaked = 0 /\ r.good

TraceNext ==
    \/ TrSens
    \/ TrReset \/ TrREnqueue \/ TrDStart \/ TrDFail \/ TrDOffer \/ TrCDequeue \/ TrCTake \/ TrCDeliver \/ TrCClose
    \/ TrURecv \/ TrRFinQ \/ TrRFinSend \/ TrRFinWait \/ TrRFinClose \/ TrEnd

TraceSpec == TraceInit /\ [][TraceNext]_tvars
TraceAccepted == TLCGet("stats").diameter = Len(Trace) + 1
=============================================================================
