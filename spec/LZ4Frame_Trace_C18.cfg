SPECIFICATION TraceSpec
CONSTANTS
  TraceFile = "trace.ndjson"
  Prop = "C18"
POSTCONDITION TraceAccepted
CHECK_DEADLOCK FALSE
