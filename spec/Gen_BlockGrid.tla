---------------------------- MODULE Gen_BlockGrid ----------------------------
(***************************************************************************)
(* Input grid for the block compressors (C10, C11): every source length    *)
(* 0..MaxLen x period (the source is periodic, so that the best match runs *)
(* into the last 5 / 12 bytes) x destination length 0..Bound+2 x           *)
(* compressor kind.  One leaf state per case.                              *)
(***************************************************************************)
EXTENDS LZ4Block, TLC, Json

CONSTANTS Lens, Periods, Kinds, DstStep

VARIABLES phase, c

Base(j) == (j * 89 + 17) % 251
Src(n, p) == [i \in 1 .. n |-> Base((i - 1) % p)]

Init == phase = 0 /\ c = [x |-> 0]

L1 == /\ phase = 0 /\ phase' = 1
      /\ \E n \in Lens, p \in Periods : c' = [n |-> n, p |-> p]

L2 == /\ phase = 1 /\ phase' = 2
      /\ \E k \in Kinds, d \in 0 .. CompressBound(c.n) + 2 :
            /\ (d % DstStep = 0 \/ d >= CompressBound(c.n) - 1 \/ d <= 2)
            /\ c' = [n |-> c.n, p |-> c.p, kind |-> k[1], depth |-> k[2], dst |-> d]

Next == L1 \/ L2
Spec == Init /\ [][Next]_<<phase, c>>

Emit == phase = 2 =>
    PrintT(ToJson([src |-> Src(c.n, c.p), kind |-> c.kind, depth |-> c.depth, dstLen |-> c.dst,
                   n |-> c.n, p |-> c.p]))

GKinds == {<<"fast", 0>>, <<"hc", 1>>, <<"hc", 0>>}
TLens == 0 .. 80
QLens == {0, 1, 4, 5, 11, 12, 13, 14, 15, 16, 17, 18, 19, 20, 24, 31, 32, 33, 40, 48, 63, 64, 65, 80}
=============================================================================
