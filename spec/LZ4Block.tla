------------------------------ MODULE LZ4Block ------------------------------
(***************************************************************************)
(* The LZ4 block format (lz4_Block_format.md) as executable definitions.   *)
(*                                                                         *)
(* A block is a sequence of "sequences":                                   *)
(*   token | [literal length bytes] | literals | offset(2, LE) |           *)
(*   [match length bytes]                                                  *)
(* the high nibble of the token is the literal length (15 = more bytes     *)
(* follow, each added, until one is not 255), the low nibble + 4 is the    *)
(* match length (15 = more bytes likewise).  The last sequence stops after *)
(* its literals.  A match copies `mlen' bytes starting `offset' bytes back *)
(* in the output produced so far, byte by byte (so it may overlap itself); *)
(* with a dictionary, the history is dict \o output.                       *)
(*                                                                         *)
(* Decode(src, dict, dstLen) classifies every byte string:                 *)
(*   "ok"        well-formed, decoded size <= dstLen; .out is the content  *)
(*   "zero_offset" | "before_dict" | "truncated" | "overflow"              *)
(*               the four conditions for which C04 demands an error        *)
(*   "other"     malformed in a way the property does not name: empty      *)
(*               input, a block that ends right after a match, a final     *)
(*               literal-only sequence whose match nibble is not 0         *)
(* Bytes are naturals 0..255; sequences are 1-based.                       *)
(***************************************************************************)
EXTENDS Integers, Sequences

MinMatch == 4

\* Dictionaries are records so that a 64 KiB dictionary costs TLC a formula, not a
\* sequence: either explicit bytes or the pattern byte(j) = (a*j + b) % 251.
SeqDict(s)       == [kind |-> "seq", len |-> Len(s), bytes |-> s, a |-> 0, b |-> 0]
PatDict(n, a, b) == [kind |-> "pat", len |-> n, bytes |-> <<>>, a |-> a, b |-> b]
NoDict           == SeqDict(<<>>)
DLen(d)   == d.len
DAt(d, j) == IF d.kind = "seq" THEN d.bytes[j] ELSE (d.a * j + d.b) % 251

\* history byte j (1-based) of dict \o out, without building the concatenation
HistAt(dict, out, j) == IF j <= DLen(dict) THEN DAt(dict, j) ELSE out[j - DLen(dict)]

\* the mlen bytes a match (offset, mlen) appends to `out'
MatchBytes(dict, out, offset, mlen) ==
    LET base == DLen(dict) + Len(out) - offset
    IN  [k \in 1 .. mlen |-> HistAt(dict, out, base + ((k - 1) % offset) + 1)]

\* Extended length: starting value v (15 or 19), continuation bytes from index i.
\* Returns <<value, next index>> or <<-1, 0>> when the input ends inside it.
RECURSIVE ExtLen(_, _, _)
ExtLen(src, i, v) ==
    IF i > Len(src) THEN <<-1, 0>>
    ELSE IF src[i] = 255 THEN ExtLen(src, i + 1, v + 255)
    ELSE <<v + src[i], i + 1>>

Res(kind, out, seqs) == [kind |-> kind, out |-> out, seqs |-> seqs]

\* decode from index i with `out' produced so far; seqs collects <<lit, off, mlen>>
RECURSIVE Dec(_, _, _, _, _, _)
Dec(src, i, out, dict, dstLen, seqs) ==
    IF i > Len(src) THEN Res("other", out, seqs)          \* ended right after a match (or empty)
    ELSE
    LET tok  == src[i]
        L    == tok \div 16
        M    == tok % 16
        le   == IF L = 15 THEN ExtLen(src, i + 1, 15) ELSE <<L, i + 1>>
    IN  IF le[1] < 0 THEN Res("truncated", out, seqs)
        ELSE
        LET lit == le[1]
            ls  == le[2]                                  \* first literal byte
            le2 == ls + lit                               \* index after the literals
        IN  IF le2 - 1 > Len(src) THEN Res("truncated", out, seqs)
            ELSE IF Len(out) + lit > dstLen THEN Res("overflow", out, seqs)
            ELSE
            LET out1 == out \o SubSeq(src, ls, le2 - 1)
            IN  IF le2 > Len(src)
                THEN IF M = 0 THEN Res("ok", out1, Append(seqs, <<lit, 0, 0>>))
                     ELSE Res("other", out1, seqs)
                ELSE IF le2 + 1 > Len(src) THEN Res("truncated", out1, seqs)
                ELSE
                LET offset == src[le2] + 256 * src[le2 + 1]
                    me == IF M = 15 THEN ExtLen(src, le2 + 2, 19) ELSE <<M + MinMatch, le2 + 2>>
                IN  IF offset = 0 THEN Res("zero_offset", out1, seqs)
                    ELSE IF me[1] < 0 THEN Res("truncated", out1, seqs)
                    ELSE IF offset > Len(out1) + DLen(dict) THEN Res("before_dict", out1, seqs)
                    ELSE IF Len(out1) + me[1] > dstLen THEN Res("overflow", out1, seqs)
                    ELSE Dec(src, me[2], out1 \o MatchBytes(dict, out1, offset, me[1]),
                             dict, dstLen, Append(seqs, <<lit, offset, me[1]>>))

Decode(src, dict, dstLen) == Dec(src, 1, <<>>, dict, dstLen, <<>>)

IsMandatedError(k) == k \in {"zero_offset", "before_dict", "truncated", "overflow"}

\* Parse without size limit or dictionary limit: the sequence triples of a block
ParseSeqs(src) == Dec(src, 1, <<>>, NoDict, 2147483647, <<>>)

\* ---------------------------------------------------------------------------
\* Encoding side

\* length bytes following a token nibble of 15: v >= 15 (literals) / v >= 19 -> pass v - base
RECURSIVE LenBytes(_)
LenBytes(r) == IF r >= 255 THEN <<255>> \o LenBytes(r - 255) ELSE <<r>>

Nib(v) == IF v >= 15 THEN 15 ELSE v

\* one sequence with a match
SerSeq(lits, offset, mlen) ==
    LET l == Len(lits)  m == mlen - MinMatch
    IN  <<16 * Nib(l) + Nib(m)>>
        \o (IF l >= 15 THEN LenBytes(l - 15) ELSE <<>>)
        \o lits
        \o <<offset % 256, offset \div 256>>
        \o (IF m >= 15 THEN LenBytes(m - 15) ELSE <<>>)

\* the final, literal-only sequence
SerLast(lits) ==
    LET l == Len(lits)
    IN  <<16 * Nib(l)>> \o (IF l >= 15 THEN LenBytes(l - 15) ELSE <<>>) \o lits

CompressBound(n) == n + (n \div 255) + 16

\* ---------------------------------------------------------------------------
\* Strict validity of a compressor's output (C10), on the sequence triples of a block that
\* encodes n source bytes: offsets in 1..65535 and within the output so far, last
\* sequence literal-only, last 5 bytes literals, last match starts >= 12 bytes before
\* the end.  seqs is a sequence of <<lit, off, mlen>>, the last with off = mlen = 0.
\* single pass: k = sequence index, pos = output position where sequence k starts,
\* lms = start of the last match seen so far (-1 if none)
RECURSIVE SV(_, _, _, _, _)
SV(seqs, k, pos, lms, n) ==
    LET lit == seqs[k][1]  off == seqs[k][2]  m == seqs[k][3]
    IN  IF k = Len(seqs)
        THEN /\ off = 0 /\ m = 0
             /\ pos + lit = n
             /\ (lms >= 0 => lit >= 5 /\ lms <= n - 12)
        ELSE /\ off >= 1 /\ off <= 65535
             /\ m >= MinMatch
             /\ off <= pos + lit
             /\ SV(seqs, k + 1, pos + lit + m, pos + lit, n)

StrictValid(seqs, n) == Len(seqs) >= 1 /\ SV(seqs, 1, 0, 0 - 1, n)

\* The same predicate for long sequence lists (field-level traces), without recursion:
\* each entry is <<lit, off, mlen, pos>> where pos is the logged output position at which
\* the sequence starts; the chain of positions is checked, so pos need not be trusted.
StrictValidP(s, n) ==
    LET K == Len(s)
    IN  /\ K >= 1 /\ s[1][4] = 0
        /\ \A k \in 1 .. K - 1 :
              /\ s[k + 1][4] = s[k][4] + s[k][1] + s[k][3]
              /\ s[k][2] >= 1 /\ s[k][2] <= 65535
              /\ s[k][3] >= MinMatch
              /\ s[k][2] <= s[k][4] + s[k][1]
        /\ s[K][2] = 0 /\ s[K][3] = 0
        /\ s[K][4] + s[K][1] = n
        /\ (K > 1 => s[K][1] >= 5 /\ s[K - 1][4] + s[K - 1][1] <= n - 12)
=============================================================================
