---------------------------- MODULE XXH32Machine ----------------------------
(***************************************************************************)
(* The XXH32 streaming hash object as a state machine (variables st, hist):*)
(* MC_XXH32 explores it exhaustively within bounds, XXH32_Trace validates  *)
(* recorded executions of the implementation against it.                   *)
(***************************************************************************)
EXTENDS XXH32

\* ---------------------------------------------------------------------------
\* State machine: a hash object receiving a sequence of writes.
CONSTANTS WriteLens     \* function: step number (1..MaxWrites) -> set of allowed lengths
          , MaxWrites

VARIABLES st, hist, nw

vars == <<st, hist, nw>>

\* deterministic byte stream fed to the hash: position p (1-based) -> byte
Pat(p) == (p * 151 + 43 + (p \div 7) * 13) % 256

Init == st = StReset /\ hist = <<>> /\ nw = 0

\* one Write call on the hash object with the given bytes
WriteChunk(chunk) ==
    /\ st' = StWrite(st, chunk)
    /\ hist' = hist \o chunk
    /\ nw' = nw + 1

Write(n) == WriteChunk([i \in 1 .. n |-> Pat(Len(hist) + i)])

Reset == st' = StReset /\ hist' = <<>> /\ nw' = 0

Next == nw < MaxWrites /\ \E n \in WriteLens[nw + 1] : Write(n)

Spec == Init /\ [][Next]_vars

\* C13 at design level: the streaming digest equals the one-shot function of
\* everything written so far, after every write.
StreamingRefinesOneShot == StSum(st) = XXH32(hist)

BufInvariant == Len(st.buf) < 16 /\ Len(st.buf) = Len(hist) % 16
=============================================================================
