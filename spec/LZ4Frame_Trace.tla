---------------------------- MODULE LZ4Frame_Trace ----------------------------
(***************************************************************************)
(* Trace validation of frame-level observations against LZ4Frame.tla at    *)
(* byte level: TLC parses the recorded bytes itself.                       *)
(*                                                                         *)
(* Events:                                                                 *)
(*  hdr   bytes valid err rerr size      ValidFrameHeader / Reader on a    *)
(*                                       header + empty body (C19)         *)
(*  emit  bytes input opts legacy        a frame emitted by the Writer,    *)
(*                                       the compressing reader or lz4c    *)
(*                                       (C09, C18, C20)                   *)
(*  read  bytes outcome delivered        what a Reader made of arbitrary   *)
(*        consumed                       bytes (C05, C06, C07)             *)
(*  refparse bytes strict status content consumed blocks                   *)
(*                                       result of the Go reference parser *)
(*                                       (ref-conformance)                 *)
(***************************************************************************)
EXTENDS LZ4Frame, TLC, Json

CONSTANTS TraceFile, Prop

Trace == ndJsonDeserialize(TraceFile)

VARIABLE l

IsPrefixOf(a, b) == Len(a) <= Len(b) /\ SubSeq(b, 1, Len(a)) = a

\* ---- C19 -----------------------------------------------------------------
\* err classes: "none" "hc" "bd" "magic" "eof" ...
HdrOK(r) ==
    LET p == ParseLenient(r.bytes)
    IN  CASE p.status = "ok" ->
               /\ r.valid /\ r.err = "none"
               /\ r.rerr = "eof"
               /\ r.size = (IF FlgSize(p.flg) THEN p.csize ELSE Nat64(0))
          [] p.status = "bad_hc" ->
               /\ ~r.valid
               \* a wrong checksum together with an undefined block size may be reported as either
               /\ r.err \in (IF MaxBlockOf(BdCode(p.bd)) = 0 THEN {"hc", "bd"} ELSE {"hc"})
               /\ r.rerr \in (IF MaxBlockOf(BdCode(p.bd)) = 0 THEN {"hc", "bd"} ELSE {"hc"})
          [] p.status = "bad_bd" -> ~r.valid /\ r.err = "bd" /\ r.rerr = "bd"
          [] p.status = "bad_magic" -> ~r.valid /\ r.err = "none" /\ r.rerr = "magic"
          [] OTHER -> TRUE

\* ---- emitted frames (C09 / C18 / C20) ------------------------------------
\* opts: code, bcs, ccs, size (limbs or <<>>), legacy
EmitOK(r) ==
    LET p == ParseStrict(r.bytes)
    IN  /\ p.status = "ok"
        /\ p.consumed = Len(r.bytes)
        /\ p.content = r.input
        /\ p.legacy = r.opts.legacy
        /\ (~r.opts.legacy =>
              /\ BdCode(p.bd) = r.opts.code
              /\ FlgBlockCS(p.flg) = r.opts.bcs
              /\ FlgContentCS(p.flg) = r.opts.ccs
              /\ FlgIndep(p.flg)
              /\ p.csize = r.opts.size)

\* field level: r.ref is the reference parser's (strict) summary of the emitted bytes, whose
\* agreement with LZ4Frame!Parse is established on the byte-level records of the same run
EmitBigOK(r) ==
    LET p == r.ref
        K == Len(p.blocks)
    IN  /\ p.status = "ok"
        /\ p.consumed = p.total
        /\ r.same
        /\ p.contentLen = r.inputLen
        /\ p.legacy = r.opts.legacy
        /\ (~r.opts.legacy =>
              /\ BdCode(p.bd) = r.opts.code /\ ~BdReserved(p.bd)
              /\ FlgVersion(p.flg) = 1 /\ ~FlgReserved(p.flg) /\ ~FlgDictID(p.flg) /\ FlgIndep(p.flg)
              /\ FlgBlockCS(p.flg) = r.opts.bcs
              /\ FlgContentCS(p.flg) = r.opts.ccs
              /\ p.csize = r.opts.size
              /\ \A k \in 1 .. K : p.blocks[k].size <= MaxBlockOf(r.opts.code) /\ p.blocks[k].dec <= MaxBlockOf(r.opts.code))
        /\ (r.opts.legacy =>
              /\ \A k \in 1 .. K : ~p.blocks[k].raw /\ p.blocks[k].dec <= LegacyBlock
              /\ (r.noflush => \A k \in 1 .. K - 1 : p.blocks[k].dec = LegacyBlock))

\* ---- reads of arbitrary bytes (C05 / C06 / C07) ---------------------------
\* outcome: "clean" (io.EOF from Read / nil from WriteTo), "error", "panic", "hang"
\* Byte level (r.small): TLC parses r.bytes itself.  Field level: r.ref is the reference parser's
\* lenient summary of the same bytes (re-validated against LZ4Frame!Parse on the small records).
RefStatus(r) == IF r.small THEN ParseLenient(r.bytes).status ELSE r.ref.status

\* C05: a clean end implies the independent parser accepts the consumed bytes and yields the same output
SoundOK(r) ==
    r.outcome = "clean" =>
        IF r.small
        THEN LET p == ParseLenient(r.bytes) IN p.status \in {"ok", "empty"} /\ p.content = r.delivered
        ELSE r.ref.status \in {"ok", "empty"} /\ r.ref.sameContent

\* C06: the source is a proper prefix (cut >= 1) of a valid frame; delivered bytes are a prefix of
\* its content, and the end is clean only for a legacy frame cut exactly at a block boundary
TruncOK(r) ==
    /\ r.outcome \in {"error", "clean"}
    /\ r.prefixOfContent
    /\ (r.small => IsPrefixOf(r.delivered, r.content))
    /\ (r.outcome = "clean" => r.legacyboundary)
    /\ (r.small /\ ~r.legacyboundary => ParseLenient(r.bytes).status = "truncated")   \* the case really is a truncation

\* C07: termination, dispatch on the first word, bounded allocation, no goroutine left behind
SafeOK(r) ==
    /\ r.outcome \in {"error", "clean"}
    /\ (RefStatus(r) = "bad_magic" => r.err = "magic")
    /\ (r.err = "magic" => RefStatus(r) = "bad_magic")
    /\ r.leaked = 0
    /\ r.mem.allocMiB <= 64 + 2 * (r.conc + 3) * r.maxblockMiB + 3 * r.deliveredMiB
    \* a leading skippable frame makes exactly the announced number of bytes disappear: what follows is read as the
    \* specification reads it (skipfirst: the input starts with one of the sixteen skippable magics)
    /\ (r.skipfirst /\ r.outcome = "clean" => SoundOK(r))

\* C15 (Reader side): the source is a valid frame served with some fragmentation pattern and possibly
\* failing at its k-th Read call (r.hit: that call was really made)
FaultOK(r) ==
    /\ r.outcome \in {"error", "clean"}
    /\ r.prefixOfContent
    /\ (r.hit => r.outcome = "error" /\ r.err = "injected")
    /\ (~r.hit => r.outcome = "clean" /\ r.deliveredLen = r.contentLen)
    /\ (r.small /\ ~r.hit => ParseLenient(r.bytes).content = r.delivered)

\* C16: the source is a dependent-block frame from the independent encoder (small ones are logged verbatim):
\* TLC decodes it itself (ref-conformance of the encoder) and the Reader must have delivered the content
LinkedOK(r) ==
    /\ r.outcome = "clean" /\ r.sameAsContent
    /\ (r.small => LET p == ParseStrict(r.bytes)
                   IN  p.status = "ok" /\ ~FlgIndep(p.flg) /\ p.content = r.content /\ r.delivered = r.content)
    /\ (~r.small => r.ref.status = "ok" /\ r.ref.sameContent)

\* Completeness on composed sources (beyond the listed properties, run with C02): skippable frames before a
\* frame, concatenated legacy frames, the kernel-style trailer, bytes trailing a frame.  Whatever the frame
\* specification accepts the Reader delivers, and it consumes exactly the bytes of the frame.
CompleteOK(r) ==
    /\ r.outcome \in {"clean", "error"}
    /\ IF r.small
       THEN LET p == ParseLenient(r.bytes)
            IN  p.status = "ok" => r.outcome = "clean" /\ r.delivered = p.content /\ r.consumed = p.consumed
       ELSE r.ref.status = "ok" => r.outcome = "clean" /\ r.ref.sameContent /\ r.consumed = r.ref.consumed

RefOK(r) ==
    LET p == Parse(r.bytes, r.strict)
    IN  /\ p.status = r.status /\ p.content = r.content /\ p.consumed = r.consumed
        /\ Len(p.blocks) = Len(r.blocks)
        /\ \A k \in 1 .. Len(p.blocks) : p.blocks[k].size = r.blocks[k].size /\ p.blocks[k].raw = r.blocks[k].raw

RecordOK(r) ==
    CASE r.ev = "hdr" -> HdrOK(r)
      [] r.ev = "emit" -> EmitOK(r)
      [] r.ev = "emitbig" -> EmitBigOK(r)
      [] r.ev = "refparse" -> RefOK(r)
      [] r.ev = "read" -> (CASE Prop = "C05" -> SoundOK(r)
                             [] Prop = "C06" -> TruncOK(r)
                             [] Prop = "C07" -> SafeOK(r)
                             [] Prop = "C15" -> FaultOK(r)
                             [] Prop = "C16" -> LinkedOK(r)
                             [] Prop = "C02" -> CompleteOK(r)
                             [] OTHER -> TRUE)

TraceInit == l = 1
TrStep == l <= Len(Trace) /\ RecordOK(Trace[l]) /\ l' = l + 1
TraceSpec == TraceInit /\ [][TrStep]_l
TraceAccepted == TLCGet("stats").diameter = Len(Trace) + 1
=============================================================================
