--------------------------- MODULE Gen_HeaderZero ---------------------------
(* Inputs crafted so that a checksum FIELD is zero (C09): for every descriptor  *)
(* (block-size code x block checksum x content checksum) with a content-size    *)
(* field, the least size >= 1 whose header-checksum byte is 0x00.               *)
EXTENDS LZ4Frame, TLC, Json

VARIABLES phase, c

Init == phase = 0 /\ c = [x |-> 0]

Next == /\ phase = 0 /\ phase' = 1
        /\ \E code \in 4 .. 7, bcs \in BOOLEAN, ccs \in BOOLEAN :
              c' = [code |-> code, bcs |-> bcs, ccs |-> ccs]

Spec == Init /\ [][Next]_<<phase, c>>

HC(o, n) == HeaderChecksum(<<Flg(o), 16 * o.code>> \o Limbs64Bytes(Nat64(n)))

RECURSIVE Least(_, _)
Least(o, n) == IF HC(o, n) = 0 THEN n ELSE Least(o, n + 1)

Emit == phase = 1 =>
    LET o == [code |-> c.code, indep |-> TRUE, bcs |-> c.bcs, ccs |-> c.ccs, size |-> Nat64(1)]
    IN  PrintT(ToJson([code |-> c.code, bcs |-> c.bcs, ccs |-> c.ccs, size |-> Least(o, 1)]))
=============================================================================
