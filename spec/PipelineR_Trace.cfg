SPECIFICATION TraceSpec
CONSTANTS
  N = 40
  Num = 4
  DecodeFailAt = 0
  SourceFailAt = 0
  EmptyBlocks = {}
  TraceFile = "trace.ndjson"
INVARIANTS
  Ordered
POSTCONDITION TraceAccepted
CHECK_DEADLOCK FALSE
