SPECIFICATION TraceSpec
CONSTANTS
  TraceFile = "trace.ndjson"
  Prop = "C03"
POSTCONDITION TraceAccepted
CHECK_DEADLOCK FALSE
