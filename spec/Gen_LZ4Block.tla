----------------------------- MODULE Gen_LZ4Block -----------------------------
(***************************************************************************)
(* Case generation for the block decoders (C03, C04, C12).                 *)
(*                                                                         *)
(* TLC enumerates the sequence grammar by classes - literal length class x *)
(* match length class x offset class (relative to the output position and  *)
(* the dictionary size) x dictionary size x destination size - for blocks  *)
(* of one and two sequences, plus "positioned" blocks whose sequence of    *)
(* interest starts 0..48 bytes before the end of the source and of the     *)
(* destination (the reach of the decoders' wide-copy shortcuts).  Each     *)
(* reachable leaf state is one case, printed as JSON together with the     *)
(* result LZ4Block!Decode defines for it.                                  *)
(***************************************************************************)
EXTENDS LZ4Block, TLC, Json, FiniteSets

CONSTANTS Tier,   \* "quick" | "thorough": which class sets are enumerated
          Mode    \* "grammar" | "pos" | "all"

Q == Tier = "quick"
DictLens      == IF Q THEN {0, 2, 65535, 65600} ELSE {0, 1, 2, 3, 7, 64, 65535, 65600}
LitClasses    == IF Q THEN {0, 1, 14, 15, 270} ELSE {0, 1, 14, 15, 16, 269, 270, 271, 525}
MatchClasses  == IF Q THEN {4, 18, 19, 274} ELSE {4, 5, 18, 19, 20, 273, 274, 529}
FinalLits     == IF Q THEN {0, 5} ELSE {0, 1, 5, 16}
DstDeltas     == IF Q THEN {0, 0 - 1, 64} ELSE {0, 0 - 1, 1, 64}
Lit2Classes   == IF Q THEN {0, 3, 15} ELSE {0, 1, 3, 15, 270}
Match2Classes == IF Q THEN {4, 19} ELSE {4, 18, 19, 274}
PosTails      == 0 .. 48
PosLits       == IF Q THEN {1, 8, 13, 14, 15, 20} ELSE {0, 1, 7, 8, 9, 13, 14, 15, 16, 20, 47, 48, 49}
PosMatches    == IF Q THEN {4, 6, 8, 10, 12, 14, 18, 19, 34} ELSE {4, 5, 6, 8, 10, 12, 14, 16, 17, 18, 19, 20, 34}
PosOffsets    == IF Q THEN {1, 4, 8, 10, 12, 14, 16, 18} ELSE {1, 2, 4, 8, 10, 12, 13, 14, 16, 17, 18, 19}
PosMatchTails == {4, 8, 16, 18, 19, 32, 48}
PosDeltas     == {0, 0 - 1, 0 - 2, 0 - 5, 7}

VARIABLES phase, c

gvars == <<phase, c>>

LitByte(p) == (p * 37 + 5) % 251
Run(from, n) == [i \in 1 .. n |-> LitByte(from + i)]

TheDict(n) == IF n = 0 THEN NoDict ELSE PatDict(n, 7, 3)

OffsetClasses(di, dl) ==
    {o \in {0, 1, 2, 7, 8, 15, 16, 17, 18, di, di + 1, di + dl, di + dl + 1, 65535} : o <= 65535}

\* ---- case assembly -------------------------------------------------------
Block(p) ==
    IF p.shape = 1
    THEN SerSeq(Run(0, p.lit), p.off, p.m) \o SerLast(Run(p.lit, p.fin))
    ELSE IF p.shape = 2
    THEN SerSeq(Run(0, p.lit), p.off1, p.m1)
         \o SerSeq(Run(p.lit, p.lit2), p.off, p.m) \o SerLast(Run(p.lit + p.lit2, p.fin))
    ELSE IF p.shape = 4
    THEN \* a match straddling dictionary and block, then a positioned sequence, then the tail
         SerSeq(Run(0, p.lit0), p.lit0 + p.k, p.m0)
         \o SerSeq(Run(p.lit0, p.lit), p.off, p.m)
         \o SerLast(Run(p.lit0 + p.lit, p.tail))
    ELSE \* positioned: pad | sequence of interest | tail
         SerSeq(Run(0, p.lit), p.off, p.m)
         \o (IF p.tailkind = "lits" THEN SerLast(Run(p.lit, p.tail))
             ELSE IF p.tailkind = "match" THEN SerSeq(<<>>, 1, p.tail) \o <<0>>
             ELSE <<>>)

CaseOf(p) ==
    LET src   == Block(p)
        d     == TheDict(p.dl)
        full  == Dec(src, 1, <<>>, d, 2147483647, <<>>)
        exact == Len(full.out)
        dst   == IF exact + p.dd < 0 THEN 0 ELSE exact + p.dd
        r     == Decode(src, d, dst)
    IN  [src |-> src, dict |-> [len |-> p.dl, a |-> 7, b |-> 3], dstLen |-> dst,
         kind |-> r.kind, out |-> IF r.kind = "ok" THEN r.out ELSE <<>>, params |-> p]

\* ---- enumeration as a two-level state graph (level 1 spreads work over workers)
Init == phase = 0 /\ c = [x |-> 0]

Level1 ==
    /\ phase = 0
    /\ phase' = 1
    /\ \/ Mode \in {"grammar", "all"} /\ \E dl \in DictLens, lit \in LitClasses, sh \in {1, 2} :
            c' = [shape |-> sh, dl |-> dl, lit |-> lit]
       \/ Mode \in {"pos", "all"} /\ \E lit \in PosLits, m \in PosMatches :
            c' = [shape |-> 3, dl |-> 0, lit |-> lit, m |-> m]
       \/ Mode \in {"pos", "all"} /\ \E lit \in {1, 8, 14}, m \in {4, 10, 18}, dl \in {7, 64} :
            c' = [shape |-> 4, dl |-> dl, lit |-> lit, m |-> m]

Level2 ==
    /\ phase = 1
    /\ phase' = 2
    /\ \/ /\ c.shape = 1
          /\ \E m \in MatchClasses, off \in OffsetClasses(c.lit, c.dl), fin \in FinalLits, dd \in DstDeltas :
               c' = [shape |-> 1, dl |-> c.dl, lit |-> c.lit, off |-> off, m |-> m, fin |-> fin, dd |-> dd]
       \/ /\ c.shape = 2
          /\ \E m1 \in {4, 19},
               off1 \in {o \in {1, c.lit + 1, c.lit + c.dl} : o >= 1 /\ o <= c.lit + c.dl /\ o <= 65535},
               lit2 \in Lit2Classes, m \in Match2Classes, fin \in {0, 5, 64}, dd \in DstDeltas :
               \E off \in OffsetClasses(c.lit + m1 + lit2, c.dl) :
                 c' = [shape |-> 2, dl |-> c.dl, lit |-> c.lit, off1 |-> off1, m1 |-> m1,
                       lit2 |-> lit2, off |-> off, m |-> m, fin |-> fin, dd |-> dd]
       \/ /\ c.shape = 3
          /\ \E off \in PosOffsets, tk \in {"lits", "match", "none"}, t \in PosTails, dd \in PosDeltas :
               /\ off <= c.lit
               /\ (tk = "match" => t \in PosMatchTails)
               /\ (tk = "none" => t = 0)
               /\ c' = [shape |-> 3, dl |-> 0, lit |-> c.lit, off |-> off, m |-> c.m,
                        tailkind |-> tk, tail |-> t, dd |-> dd]
       \/ /\ c.shape = 4
          /\ \E lit0 \in {1, 3}, k \in {1, 5}, m0 \in {8, 20, 40}, off \in {1, 4, 8, 12}, t \in PosTails, dd \in {0, 0 - 1, 0 - 5, 7} :
               /\ k <= c.dl
               /\ c' = [shape |-> 4, dl |-> c.dl, lit0 |-> lit0, k |-> k, m0 |-> m0, lit |-> c.lit, off |-> off, m |-> c.m,
                        tail |-> t, dd |-> dd]
       \/ \* ... and the second sequence's match reaches back into the dictionary (the decoder must still know where the
          \* dictionary is after the straddling, self-overlapping copy of the first one)
          /\ c.shape = 4
          /\ \E lit0 \in {1, 3}, k \in {1, 5}, m0 \in {8, 20, 40}, into \in {1, 5}, t \in {0, 5, 15, 16, 17, 32, 48}, dd \in {0, 0 - 1} :
               /\ k <= c.dl
               /\ into <= c.dl
               /\ c' = [shape |-> 4, dl |-> c.dl, lit0 |-> lit0, k |-> k, m0 |-> m0, lit |-> c.lit,
                        off |-> lit0 + m0 + c.lit + into, m |-> c.m, tail |-> t, dd |-> dd]

Next == Level1 \/ Level2

Spec == Init /\ [][Next]_gvars

Emit ==
    phase = 2 =>
        LET k == CaseOf(c)
        IN  /\ Assert(\A i \in 1 .. Len(k.src) : k.src[i] \in 0 .. 255, "generated a non-byte")
            /\ PrintT(ToJson(k))
=============================================================================
