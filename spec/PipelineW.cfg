SPECIFICATION Spec
CONSTANTS
  N = 4
  Num = 2
  FailAt = 0
INVARIANTS
  Ordered
  NoUseAfterPut
  ClosedMeansFlushed
  WorkersNeverBlockedAfterClose
PROPERTY EventuallyAllDone
