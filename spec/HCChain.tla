------------------------------ MODULE HCChain ------------------------------
(***************************************************************************)
(* The hash / chain tables of the HC compressor (lz4block/block.go,        *)
(* CompressorHC.CompressBlock): hashTable[h] is the last inserted position *)
(* whose 4 bytes hash to h, chainTable[p mod W] the position that was      *)
(* hashTable[h] when p was inserted.  Slots are shared by positions W      *)
(* apart and positions that the compressor skips (no match: si advances by *)
(* more than one; long match: only the last W positions are inserted) keep *)
(* stale entries.  The search walks                                        *)
(*     next = hashTable[h]; next > 0 /\ si - next < W; next = chain[next]  *)
(* and the model shows that, whatever the hash function, the skips and the *)
(* match lengths, every position the walk visits is an inserted position   *)
(* of the same bucket, strictly behind si, inside the window, and strictly *)
(* older than the one before (so the walk ends): a stale slot is never     *)
(* read, because the slot of a visited position p can only have been       *)
(* overwritten by p + W <= si - 1, which the window test excludes.         *)
(* Position 0 is never a candidate (0 is the empty-slot value).            *)
(* C10 / C01 only need "behind si and inside the window" - the offsets     *)
(* emitted are in 1 .. 65535 - the rest is what makes the search find the  *)
(* matches it is supposed to find (C14: deterministic after the reset of   *)
(* the tables at the start of each call).                                  *)
(***************************************************************************)
EXTENDS Integers, Sequences, FiniteSets

CONSTANTS W,        \* window size (65536 in the code)
          L,        \* source length
          HB,       \* number of hash buckets
          MaxSkip,  \* positions skipped after a failed search: 0 .. MaxSkip
          MaxMatch  \* match lengths 4 .. MaxMatch

VARIABLES si,       \* current position
          ht,       \* bucket -> last inserted position (0: none)
          ct,       \* slot (position mod W) -> previous position of the same bucket at insertion time
          hv,       \* the hash function: position -> bucket (arbitrary, fixed)
          ins       \* the set of inserted positions (history variable)

vars == <<si, ht, ct, hv, ins>>

Init ==
    /\ si = 0
    /\ ht = [b \in 1 .. HB |-> 0]
    /\ ct = [s \in 0 .. W - 1 |-> 0]
    /\ hv \in [0 .. L -> 1 .. HB]
    /\ ins = {}

\* the positions the search at si visits, in order
RECURSIVE Walk(_, _)
Walk(next, fuel) ==
    IF fuel = 0 \/ next <= 0 \/ si - next >= W THEN <<>>
    ELSE <<next>> \o Walk(ct[next % W], fuel - 1)

Visited == Walk(ht[hv[si]], L + 1)

Insert(tables, p) ==
    [h |-> [tables.h EXCEPT ![hv[p]] = p],
     c |-> [tables.c EXCEPT ![p % W] = tables.h[hv[p]]]]

RECURSIVE InsertRange(_, _, _)
InsertRange(tables, from, to) ==      \* positions from .. to - 1
    IF from >= to THEN tables ELSE InsertRange(Insert(tables, from), from + 1, to)

Max(a, b) == IF a > b THEN a ELSE b

\* no match: si is inserted, then 1 + skip positions are passed over
NoMatch(skip) ==
    /\ si < L
    /\ LET t == Insert([h |-> ht, c |-> ct], si)
       IN  ht' = t.h /\ ct' = t.c
    /\ ins' = ins \cup {si}
    /\ si' = si + 1 + skip
    /\ UNCHANGED hv

\* a match of length m: si and the positions it covers are inserted, only the last W of them when m > W
Match(m) ==
    /\ si + m <= L
    /\ LET t0 == Insert([h |-> ht, c |-> ct], si)
           ws == Max(si + 1, si + m - W)
           t  == InsertRange(t0, ws, si + m)
       IN  ht' = t.h /\ ct' = t.c /\ ins' = ins \cup {si} \cup (ws .. si + m - 1)
    /\ si' = si + m
    /\ UNCHANGED hv

Next == \/ \E k \in 0 .. MaxSkip : NoMatch(k)
        \/ \E m \in 4 .. MaxMatch : Match(m)

Spec == Init /\ [][Next]_vars

\* ---- properties ------------------------------------------------------------
TablesBehind == /\ \A b \in 1 .. HB : ht[b] = 0 \/ (ht[b] < si /\ ht[b] \in ins)
                /\ \A s \in 0 .. W - 1 : ct[s] < Max(si, 1)

WalkSound ==
    si <= L =>
        LET v == Visited
        IN  /\ \A k \in 1 .. Len(v) : /\ 0 < v[k] /\ v[k] < si /\ si - v[k] < W
                                      /\ v[k] \in ins
                                      /\ hv[v[k]] = hv[si]
            /\ \A k \in 1 .. Len(v) - 1 : v[k + 1] < v[k]

\* the walk finds every inserted position of the bucket that is inside the window (except position 0)
WalkComplete ==
    si <= L =>
        LET v == Visited
        IN  \A p \in ins : (p > 0 /\ si - p < W /\ hv[p] = hv[si]) => \E k \in 1 .. Len(v) : v[k] = p
=============================================================================
