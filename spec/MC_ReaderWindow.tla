--------------------------- MODULE MC_ReaderWindow ---------------------------
(* C16 at design level: for every sequence of block sizes the Reader's window *)
(* after each block still holds min(W, bytes decoded so far) bytes, and the   *)
(* slice expression that trims it never asks for more than it has.            *)
EXTENDS Reader, TLC

CONSTANTS MaxBlock, MaxDecoded

VARIABLE decoded

Init == InitWith(0) /\ decoded = 0

Next ==
    /\ decoded < MaxDecoded
    /\ \E b \in 0 .. MaxBlock :
          /\ BlockDone(b)
          /\ decoded' = decoded + b

Spec == Init /\ [][Next]_<<rvars, decoded>>

WindowSuffices == window >= Min(W, decoded)
WindowBounded == window <= 2 * W + MaxBlock
\* r.dict[len(r.dict)-preserveSize:] must not panic: preserve <= current window
TrimInBounds == \A b \in 0 .. MaxBlock : (window + b > 2 * W) => Max(W - b, 0) <= window
=============================================================================
