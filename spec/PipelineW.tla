------------------------------ MODULE PipelineW ------------------------------
(***************************************************************************)
(* The concurrent Writer pipeline (writer.go: write / Flush / Close,       *)
(* lz4stream/block.go: Blocks.initW / close) with Go channel semantics.    *)
(*                                                                         *)
(* Processes                                                               *)
(*   producer   the caller's goroutine: for each block it takes a data     *)
(*              buffer, queues a fresh per-block channel on the bounded    *)
(*              queue `q' (capacity Num) and starts a worker; Close queues *)
(*              a sentinel channel, sends nil on it and waits for its      *)
(*              closing.                                                   *)
(*   worker i   compresses block i into a block buffer, offers the result  *)
(*              on its channel (unbuffered: rendez-vous with the orderer), *)
(*              waits for the channel to be closed, calls the handler,     *)
(*              returns both buffers to the pools.                         *)
(*   orderer    takes channels from the queue in order, receives the block *)
(*              (or the sentinel), writes it to the sink unless an earlier *)
(*              write failed, closes the channel.                          *)
(*                                                                         *)
(* A rendez-vous is split into offer / take / (sender resumes), as the     *)
(* hooks in the code log it.  Buffers carry an owner so that "no buffer is *)
(* read or written after it went back to the pool" (the race / use-after-  *)
(* release clause of C08) is an invariant of the model.                    *)
(***************************************************************************)
EXTENDS Integers, Sequences, FiniteSets

CONSTANTS N,          \* number of blocks the caller submits before Close
          Num,        \* ConcurrencyOption: capacity of the queue
          FailAt      \* the sink fails when writing this block (0 = never)

Blocks == 1 .. N
Sentinel == N + 1

VARIABLES
    ppc,        \* producer: "submit" | "spawn" | "closeq" | "closesend" | "closewait" | "done"
    pnext,      \* next block the producer submits
    q,          \* the queue of per-block channels (sequence of block numbers / Sentinel)
    wpc,        \* worker i: "idle" | "compress" | "offer" | "offered" | "waitclose" | "release" | "done"
    opc,        \* orderer: "dequeue" | "take" | "write" | "close" | "done"
    ocur,       \* the channel the orderer is working on
    chan,       \* per channel: "empty" | "full" (a sender is blocked in the rendez-vous) | "taken" | "closed"
    sink,       \* blocks written to the sink, in order
    err,        \* first sink error seen by the orderer
    dataOwner,  \* block i's source buffer: "producer" | "worker" | "pool"
    blockOwner, \* block i's compressed-data buffer: "none" | "worker" | "pool"
    handled     \* blocks whose OnBlockDone handler ran

vars == <<ppc, pnext, q, wpc, opc, ocur, chan, sink, err, dataOwner, blockOwner, handled>>

Init ==
    /\ ppc = (IF N = 0 THEN "closeq" ELSE "submit") /\ pnext = 1 /\ q = <<>>
    /\ wpc = [i \in Blocks |-> "idle"]
    /\ opc = "dequeue" /\ ocur = 0
    /\ chan = [i \in 1 .. Sentinel |-> "empty"]
    /\ sink = <<>> /\ err = FALSE
    /\ dataOwner = [i \in Blocks |-> "producer"]
    /\ blockOwner = [i \in Blocks |-> "none"]
    /\ handled = {}

\* ---- producer ----------------------------------------------------------------
\* w.frame.Blocks.Blocks <- c   (blocks while the queue is full)
PSubmit ==
    /\ ppc = "submit" /\ Len(q) < Num
    /\ q' = Append(q, pnext)
    /\ ppc' = "spawn"
    /\ UNCHANGED <<pnext, wpc, opc, ocur, chan, sink, err, dataOwner, blockOwner, handled>>

\* go func(...){...}(c, data, safe): the data buffer now belongs to the worker
PSpawn ==
    /\ ppc = "spawn"
    /\ wpc' = [wpc EXCEPT ![pnext] = "compress"]
    /\ dataOwner' = [dataOwner EXCEPT ![pnext] = "worker"]
    /\ pnext' = pnext + 1
    /\ ppc' = IF pnext = N THEN "closeq" ELSE "submit"
    /\ UNCHANGED <<q, opc, ocur, chan, sink, err, blockOwner, handled>>

\* Blocks.close: b.Blocks <- c
PCloseQueue ==
    /\ ppc = "closeq" /\ Len(q) < Num
    /\ q' = Append(q, Sentinel)
    /\ ppc' = "closesend"
    /\ UNCHANGED <<pnext, wpc, opc, ocur, chan, sink, err, dataOwner, blockOwner, handled>>

\* c <- nil : offer, completed when the orderer takes it
PCloseSend ==
    /\ ppc = "closesend" /\ chan[Sentinel] = "empty"
    /\ chan' = [chan EXCEPT ![Sentinel] = "full"]
    /\ ppc' = "closewait"
    /\ UNCHANGED <<pnext, q, wpc, opc, ocur, sink, err, dataOwner, blockOwner, handled>>

\* <-c : returns when the orderer has closed the channel
PCloseWait ==
    /\ ppc = "closewait" /\ chan[Sentinel] = "closed"
    /\ ppc' = "done"
    /\ UNCHANGED <<pnext, q, wpc, opc, ocur, chan, sink, err, dataOwner, blockOwner, handled>>

\* ---- worker i ------------------------------------------------------------------
WCompress(i) ==
    /\ wpc[i] = "compress"
    /\ blockOwner' = [blockOwner EXCEPT ![i] = "worker"]       \* NewFrameDataBlock: buffer from the pool
    /\ wpc' = [wpc EXCEPT ![i] = "offer"]
    /\ UNCHANGED <<ppc, pnext, q, opc, ocur, chan, sink, err, dataOwner, handled>>

\* c <- b.Compress(...)
WOffer(i) ==
    /\ wpc[i] = "offer" /\ chan[i] = "empty"
    /\ chan' = [chan EXCEPT ![i] = "full"]
    /\ wpc' = [wpc EXCEPT ![i] = "offered"]
    /\ UNCHANGED <<ppc, pnext, q, opc, ocur, sink, err, dataOwner, blockOwner, handled>>

\* the send completes once the orderer has taken the value; then <-c waits for the close
WOffered(i) ==
    /\ wpc[i] = "offered" /\ chan[i] \in {"taken", "closed"}
    /\ wpc' = [wpc EXCEPT ![i] = "waitclose"]
    /\ UNCHANGED <<ppc, pnext, q, opc, ocur, chan, sink, err, dataOwner, blockOwner, handled>>

WClosed(i) ==
    /\ wpc[i] = "waitclose" /\ chan[i] = "closed"
    /\ handled' = handled \cup {i}                             \* w.handler(len(b.Data))
    /\ wpc' = [wpc EXCEPT ![i] = "release"]
    /\ UNCHANGED <<ppc, pnext, q, opc, ocur, chan, sink, err, dataOwner, blockOwner>>

\* b.Close(w.frame); lz4block.Put(data)
WRelease(i) ==
    /\ wpc[i] = "release"
    /\ blockOwner' = [blockOwner EXCEPT ![i] = "pool"]
    /\ dataOwner' = [dataOwner EXCEPT ![i] = "pool"]
    /\ wpc' = [wpc EXCEPT ![i] = "done"]
    /\ UNCHANGED <<ppc, pnext, q, opc, ocur, chan, sink, err, handled>>

\* ---- orderer --------------------------------------------------------------------
ODequeue ==
    /\ opc = "dequeue" /\ q # <<>>
    /\ ocur' = Head(q) /\ q' = Tail(q)
    /\ opc' = "take"
    /\ UNCHANGED <<ppc, pnext, wpc, chan, sink, err, dataOwner, blockOwner, handled>>

\* block := <-c
OTake ==
    /\ opc = "take" /\ chan[ocur] = "full"
    /\ chan' = [chan EXCEPT ![ocur] = "taken"]
    /\ opc' = IF ocur = Sentinel THEN "close" ELSE "write"
    /\ UNCHANGED <<ppc, pnext, q, wpc, ocur, sink, err, dataOwner, blockOwner, handled>>

\* block.Write(f, dst) unless an earlier write failed
OWrite ==
    /\ opc = "write"
    /\ IF err THEN UNCHANGED <<sink, err>>
       ELSE IF ocur = FailAt THEN err' = TRUE /\ UNCHANGED sink
       ELSE sink' = Append(sink, ocur) /\ UNCHANGED err
    /\ opc' = "close"
    /\ UNCHANGED <<ppc, pnext, q, wpc, ocur, chan, dataOwner, blockOwner, handled>>

OClose ==
    /\ opc = "close"
    /\ chan' = [chan EXCEPT ![ocur] = "closed"]
    /\ opc' = IF ocur = Sentinel THEN "done" ELSE "dequeue"
    /\ UNCHANGED <<ppc, pnext, q, wpc, ocur, sink, err, dataOwner, blockOwner, handled>>

\* ---- several lives of one Writer (used by PipelineWL and by the trace specification; not part of Next) ----
\* Close or Reset may come before all N blocks were submitted: Blocks.close queues the sentinel
PEarlyClose ==
    /\ ppc = "submit" /\ Len(q) < Num
    /\ q' = Append(q, Sentinel)
    /\ ppc' = "closesend"
    /\ UNCHANGED <<pnext, wpc, opc, ocur, chan, sink, err, dataOwner, blockOwner, handled>>

\* Reset (or Close + Reset) and the next Write: Blocks.close has returned - the old orderer has exited, b.err is
\* cleared - and initW starts a new orderer on a new queue.  Workers of the earlier life may still be between the
\* closing of their channel and their last statement.
PReopen ==
    /\ ppc = "done" /\ opc = "done"
    /\ ppc' = IF pnext > N THEN "closeq" ELSE "submit"
    /\ opc' = "dequeue" /\ ocur' = 0 /\ q' = <<>>
    /\ chan' = [chan EXCEPT ![Sentinel] = "empty"]
    /\ err' = FALSE
    /\ UNCHANGED <<pnext, wpc, sink, dataOwner, blockOwner, handled>>

Next ==
    \/ PSubmit \/ PSpawn \/ PCloseQueue \/ PCloseSend \/ PCloseWait
    \/ \E i \in Blocks : WCompress(i) \/ WOffer(i) \/ WOffered(i) \/ WClosed(i) \/ WRelease(i)
    \/ ODequeue \/ OTake \/ OWrite \/ OClose

AllDone == ppc = "done" /\ opc = "done" /\ \A i \in Blocks : wpc[i] = "done"

\* the only state without a successor is the finished one
Terminating == AllDone /\ UNCHANGED vars

Spec == Init /\ [][Next \/ Terminating]_vars /\ WF_vars(Next)

\* ---- properties (C08) -------------------------------------------------------------
\* blocks reach the sink in submission order, each at most once
Ordered == \A a, b \in 1 .. Len(sink) : a < b => sink[a] < sink[b]

\* while the orderer writes block i, both of its buffers still belong to worker i
NoUseAfterPut ==
    (opc = "write" /\ ocur \in Blocks) => dataOwner[ocur] = "worker" /\ blockOwner[ocur] = "worker"

\* when Close has returned: nothing is lost unless the sink failed, every handler ran
ClosedMeansFlushed ==
    ppc = "done" =>
        /\ opc = "done"
        /\ (~err => sink = [k \in 1 .. N |-> k])
        /\ (err => Len(sink) = FailAt - 1)

\* no goroutine started by the library survives Close for long: workers may still be between the closing of
\* their channel and their last statement when Close returns, but they are never blocked (liveness below)
WorkersNeverBlockedAfterClose ==
    ppc = "done" => \A i \in Blocks : wpc[i] \in {"offered", "waitclose", "release", "done"} /\ chan[i] = "closed"

EventuallyAllDone == <>AllDone
=============================================================================
