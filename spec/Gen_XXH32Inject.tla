--------------------------- MODULE Gen_XXH32Inject ---------------------------
(***************************************************************************)
(* State-injection cases for the XXH32 digest: totals that no longer fit   *)
(* 32 bits cannot all be reached by really writing, so TLC enumerates      *)
(* states (total length, carry-buffer fill) and the digest the reference   *)
(* rule gives; the Go replayer injects each state through the verif hook.  *)
(***************************************************************************)
EXTENDS XXH32Machine, TLC, Json

\* 64-bit totals as limbs <<l0,l1,l2,l3>>
T32(k) == Add64(<<0, 0, 1, 0>>, k)                 \* 2^32 + k
Totals ==
    {<<65535, 65535, 0, 0>>}                       \* 2^32 - 1
    \cup {T32(k) : k \in 0 .. 16}
    \cup {<<0, 0, 2, 0>>, <<5, 0, 2, 0>>}          \* 2^33, 2^33 + 5
    \cup {<<65535, 65535, 65535, 65535>>}          \* 2^64 - 1
    \cup {<<k, 0, 0, 0>> : k \in {0, 1, 15, 16, 17, 31, 32}}

Lanes == << <<4660, 22136>>, <<39612, 57072>>, <<1, 65535>>, <<65535, 0>> >>

Cases ==
    { [kind |-> "xxh_inject", v |-> Lanes, total |-> t,
       buf |-> [i \in 1 .. c |-> (17 * i + t[1]) % 256],
       h |-> SumOf(Lanes, t, [i \in 1 .. c |-> (17 * i + t[1]) % 256])]
      : t \in Totals, c \in 0 .. 15 }

ASSUME \A c \in Cases : PrintT(ToJson(c))

GenWriteLens == <<>>
GenMaxWrites == 0
GenSpec == Init /\ [][UNCHANGED vars]_vars
=============================================================================
