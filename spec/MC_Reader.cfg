SPECIFICATION MCSpec
CONSTANTS
  W = 4
  Total = 5
  BufSizes = {0, 1, 3, 7}
  MaxCalls = 4
INVARIANTS
  DeliveredIsPrefix
  Emit
CHECK_DEADLOCK FALSE
