---------------------------- MODULE LZ4Block_Trace ----------------------------
(***************************************************************************)
(* Trace validation of block-decoder executions against LZ4Block.tla.      *)
(*                                                                         *)
(* One record per case: the inputs (src, dict, dstLen) and the observation *)
(* of the default build (field a: assembly decoder on amd64) and of the    *)
(* noasm build (field p: portable decoder).  An observation is             *)
(*   err, n, out       result of UncompressBlock[WithDict]                 *)
(*   panicked          "" or the recovered panic / memory fault text       *)
(*   canary            bytes outside len(src)/len(dst)/len(dict) untouched *)
(*                     and without influence on the result (not read)      *)
(*   srcok, dictok     inputs unchanged                                    *)
(*   stable            same result for three different destination         *)
(*                     pre-fills and two memory layouts                    *)
(* Prop selects which property's predicate decides acceptance.             *)
(***************************************************************************)
EXTENDS LZ4Block, TLC, Json

CONSTANTS TraceFile, Prop

Trace == ndJsonDeserialize(TraceFile)

VARIABLE l

DictOf(d) == IF "bytes" \in DOMAIN d THEN SeqDict(d.bytes) ELSE PatDict(d.len, d.a, d.b)

\* C03: memory safety of one observation
Safe(o, dstLen) ==
    /\ o.panicked = ""
    /\ o.canary /\ o.srcok /\ o.dictok
    /\ (o.err \/ (o.n >= 0 /\ o.n <= dstLen))

\* C04: the observation is what the format defines
Exact(o, r) ==
    /\ (r.kind = "ok" => ~o.err /\ o.n = Len(r.out) /\ o.out = r.out)
    /\ (IsMandatedError(r.kind) => o.err)
    /\ o.stable

\* C12: both builds observe the same
Same(a, p) ==
    /\ a.err = p.err
    /\ (~a.err => a.n = p.n /\ a.out = p.out)
    /\ (a.panicked = "") = (p.panicked = "")

RecordOK(rec) ==
    LET r == Decode(rec.src, DictOf(rec.dict), rec.dstLen)
    IN  CASE Prop = "C03" -> Safe(rec.a, rec.dstLen) /\ Safe(rec.p, rec.dstLen)
          [] Prop = "C04" -> Exact(rec.a, r) /\ Exact(rec.p, r)
          [] Prop = "C12" -> /\ Same(rec.a, rec.p)
                             /\ (r.kind = "ok" \/ IsMandatedError(r.kind)) => Exact(rec.a, r) /\ Exact(rec.p, r)

TraceInit == l = 1

TrDecode == l <= Len(Trace) /\ Trace[l].ev = "decode" /\ RecordOK(Trace[l]) /\ l' = l + 1

TraceSpec == TraceInit /\ [][TrDecode]_l

TraceAccepted == TLCGet("stats").diameter = Len(Trace) + 1
=============================================================================
