SPECIFICATION TraceSpec
CONSTANTS
  TraceFile = "trace.ndjson"
  Prop = "C01"
  Objects <- TrObjects
  Inputs <- TrObjects
  Depths <- TrObjects
  DstClasses <- TrObjects
  MaxCalls = 0
INVARIANT Deterministic
POSTCONDITION TraceAccepted
CHECK_DEADLOCK FALSE
