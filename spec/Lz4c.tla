-------------------------------- MODULE Lz4c --------------------------------
(***************************************************************************)
(* The lz4c command line as a mapping (C20): compress flags -> Writer      *)
(* options -> what the .lz4 file must look like, and the file effects of   *)
(* compress / uncompress.  The usage text is the specification:            *)
(*   -size  block max size [64K,256K,1M,4M]   (default 4M)                 *)
(*   -bc    enable block checksum             (default off)                *)
(*   -sc    disable stream checksum           (default: checksum present)  *)
(*   -l     compression level (0=fastest)     (default 0)                  *)
(* Gen: all flag vectors with the options they denote.  Trace: every       *)
(* recorded run of the real binary must show the descriptor the model      *)
(* computes, the bytes the library Writer emits under the model's options  *)
(* (this is how -l is observed; sound by C14), a strictly valid frame, and *)
(* restoration of content and permission bits.                             *)
(***************************************************************************)
EXTENDS Integers, Sequences, TLC, Json

Sizes == {"64K", "256K", "1M", "4M"}
CodeOf(s) == CASE s = "64K" -> 4 [] s = "256K" -> 5 [] s = "1M" -> 6 [] s = "4M" -> 7

FlagVectors == [size : Sizes, bc : BOOLEAN, sc : BOOLEAN, l : 0 .. 9]

\* the Writer options a flag vector denotes
OptionsOf(f) == [code |-> CodeOf(f.size), bcs |-> f.bc, ccs |-> ~f.sc, level |-> f.l]

\* descriptor bytes of a frame written with these options (no content size, independent blocks)
FlgOf(o) == 64 + 32 + (IF o.bcs THEN 16 ELSE 0) + (IF o.ccs THEN 4 ELSE 0)
BdOf(o) == 16 * o.code

\* ---- generation: one state per flag vector
VARIABLES phase, c
Init == phase = 0 /\ c = [x |-> 0]
Next == phase = 0 /\ phase' = 1 /\ \E f \in FlagVectors : c' = f
Spec == Init /\ [][Next]_<<phase, c>>
Emit == phase = 1 => PrintT(ToJson([flags |-> c, opts |-> OptionsOf(c), flg |-> FlgOf(OptionsOf(c)), bd |-> BdOf(OptionsOf(c))]))

\* ---- judgement of one recorded run
RunOK(r) ==
    LET o == OptionsOf(r.flags)
    IN  /\ r.exit = 0 /\ r.uexit = 0
        /\ r.status = "ok" /\ r.consumed = r.total          \* C09: a strictly valid frame, nothing after it
        /\ r.same                                           \* it decodes to the file
        /\ r.flg = FlgOf(o) /\ r.bd = BdOf(o)               \* each flag has the effect its usage text states
        /\ r.csize = <<>>
        /\ r.libsame                                        \* byte-identical to the library Writer under OptionsOf(flags)
        /\ r.restored                                       \* uncompress restores the bytes
        /\ (r.files => r.zname = r.name \o ".lz4" /\ r.zmode = r.mode /\ r.rmode = r.mode)
=============================================================================
