------------------------------ MODULE MC_XXH32 ------------------------------
(***************************************************************************)
(* Bounded model of the XXH32 streaming machine, checked exhaustively, and *)
(* exported as implementation test cases (one per maximal behaviour).      *)
(*                                                                         *)
(* Write graph: first write 0..15 bytes (reaches every carry-buffer fill), *)
(* second write 0..48 bytes (crosses 0..3 stripe boundaries from every     *)
(* fill), third write from {0,1,15,16,17}: 16 x 49 x 5 = 3920 behaviours.  *)
(***************************************************************************)
EXTENDS XXH32Machine, TLC, Json

VARIABLE log      \* history of <<write length, digest after the write>>

MCWriteLens == <<0 .. 15, 0 .. 48, {0, 1, 15, 16, 17}>>
MCMaxWrites == 3

MCInit == Init /\ log = <<>>

MCNext ==
    /\ Next
    /\ log' = Append(log, [n |-> Len(hist') - Len(hist), h |-> StSum(st')])

MCSpec == MCInit /\ [][MCNext]_<<vars, log>>

\* every maximal behaviour is printed as one JSON case for the Go replayer
Emit ==
    nw = MaxWrites =>
        PrintT(ToJson([kind |-> "xxh_stream", data |-> hist, writes |-> log,
                       oneshot |-> XXH32(hist)]))
=============================================================================
