SPECIFICATION Spec
CONSTANTS
  LitLens = {0, 1, 15, 270}
  MatchLens = {4, 19, 274}
  MaxSeqs = 2
  Dicts <- MCDicts
INVARIANTS
  DecodeInvertsSerialize
  OneByteShortOverflows
  CutAfterMatchIsOther
  PrefixesNeverDecodeWrong
  DecodeBySeqs
CHECK_DEADLOCK FALSE
