SPECIFICATION Spec
CONSTANTS
  W = 4
  L = 11
  HB = 2
  MaxSkip = 2
  MaxMatch = 6
INVARIANTS
  TablesBehind
  WalkSound
  WalkComplete
CHECK_DEADLOCK FALSE
