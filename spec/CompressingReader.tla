-------------------------- MODULE CompressingReader --------------------------
(***************************************************************************)
(* The compressing reader (compressing_reader.go) as a state machine over  *)
(* lengths.  The encoder produces the frame as a sequence of PIECES, each  *)
(* handed to the overflow writer in one Write: the header, then per source *)
(* block its size word, payload and optional checksum, then the trailer.   *)
(* A Read(p) call first serves bytes left in the overflow buffer; if they  *)
(* do not fill p, it copies what is left, then lets the encoder produce    *)
(* whole blocks until p is full or the source ends; what does not fit into *)
(* p goes to the overflow buffer.                                          *)
(*                                                                         *)
(*   st        "initial" "reading" "flushing" "done"                       *)
(*   ovLen     bytes in the overflow buffer, ovPos of them already served  *)
(*   groups    piece groups not yet produced: <<header>>, one group per    *)
(*             source block, <<trailer>>; a group of <<-1>> is a source    *)
(*             read error                                                  *)
(*   produced / delivered    byte counters                                 *)
(*   last      result of the last Read: [n, err]                           *)
(***************************************************************************)
EXTENDS Integers, Sequences

VARIABLES st, ovLen, ovPos, groups, produced, delivered, last

cvars == <<st, ovLen, ovPos, groups, produced, delivered, last>>

RECURSIVE Sum(_)
Sum(s) == IF s = <<>> THEN 0 ELSE Head(s) + Sum(Tail(s))

InitWith(g) ==
    /\ st = "initial" /\ ovLen = 0 /\ ovPos = 0
    /\ groups = g /\ produced = 0 /\ delivered = 0
    /\ last = [n |-> 0, err |-> "none"]

Min(a, b) == IF a < b THEN a ELSE b
IsErr(g) == g = <<0 - 1>>

\* Produce whole groups, starting with `fill' bytes already in the caller's buffer of length plen,
\* until the buffer is full, the groups are exhausted (-> flushing) or the source fails.
\* Result: [fill, ov (bytes overflowed), rest (groups left), ended (trailer produced), failed]
RECURSIVE Produce(_, _, _, _)
Produce(gs, fill, ov, plen) ==
    IF gs = <<>> THEN [fill |-> fill, ov |-> ov, rest |-> gs, ended |-> TRUE, failed |-> FALSE]
    ELSE IF IsErr(Head(gs)) THEN [fill |-> fill, ov |-> ov, rest |-> Tail(gs), ended |-> FALSE, failed |-> TRUE]
    ELSE LET sz   == Sum(Head(gs))
             into == Min(plen - fill, sz)
             f2   == fill + into
             o2   == ov + (sz - into)
         IN  IF Len(gs) = 1                      \* the trailer group: always the end
             THEN [fill |-> f2, ov |-> o2, rest |-> <<>>, ended |-> TRUE, failed |-> FALSE]
             \* the header group is produced by init, together with what follows; a block group ends
             \* the call when the buffer is full
             ELSE IF f2 = plen /\ ~(st = "initial" /\ gs = groups)
             THEN [fill |-> f2, ov |-> o2, rest |-> Tail(gs), ended |-> FALSE, failed |-> FALSE]
             ELSE Produce(Tail(gs), f2, o2, plen)

\* the last source block and the trailer are produced in the same step (EOF from the source is
\* seen together with the final partial block): when only the trailer is left after a block, it follows
\* at once only if the buffer is not yet full - that is what Produce does by continuing the loop.

Read(plen) ==
    LET ovRem == ovLen - ovPos
    IN  IF ovRem >= plen
        THEN \* served from the overflow buffer alone (also for plen = 0, in every state)
             /\ ovPos' = ovPos + plen
             /\ delivered' = delivered + plen
             /\ last' = [n |-> plen, err |-> "none"]
             /\ UNCHANGED <<st, ovLen, groups, produced>>
        ELSE IF st = "done"
        THEN /\ last' = [n |-> 0, err |-> "other"]
             /\ ovLen' = 0 /\ ovPos' = 0
             /\ UNCHANGED <<st, groups, produced, delivered>>
        ELSE IF st = "flushing"
        THEN IF ovRem > 0
             THEN /\ last' = [n |-> ovRem, err |-> "none"]
                  /\ delivered' = delivered + ovRem
                  /\ ovLen' = 0 /\ ovPos' = 0
                  /\ UNCHANGED <<st, groups, produced>>
             ELSE /\ last' = [n |-> 0, err |-> "eof"]
                  /\ st' = "done" /\ ovLen' = 0 /\ ovPos' = 0
                  /\ UNCHANGED <<groups, produced, delivered>>
        ELSE LET r == Produce(groups, ovRem, 0, plen)
             IN  /\ groups' = r.rest
                 /\ produced' = produced + (r.fill - ovRem) + r.ov
                 /\ ovLen' = r.ov /\ ovPos' = 0
                 /\ IF r.failed
                    THEN /\ st' = "done"
                         /\ last' = [n |-> 0, err |-> "injected"]
                         /\ UNCHANGED delivered            \* bytes copied into p are not reported: n = 0
                    ELSE /\ st' = IF r.ended THEN "flushing" ELSE "reading"
                         /\ last' = [n |-> r.fill, err |-> "none"]
                         /\ delivered' = delivered + r.fill

\* Reset(src): from any state, also with bytes still parked in the overflow buffer, back to the initial state
\* with nothing pending; the next stream is produced from the groups g of the new source
Reset(g) ==
    /\ st' = "initial" /\ ovLen' = 0 /\ ovPos' = 0
    /\ groups' = g /\ produced' = 0 /\ delivered' = 0
    /\ last' = [n |-> 0, err |-> "none"]

\* ---- properties (C18) ------------------------------------------------------
\* everything produced is either delivered or waiting, in order, in the overflow buffer
NothingLostNothingTwice == st \in {"initial", "reading", "flushing"} => delivered + (ovLen - ovPos) = produced
OvBounds == 0 <= ovPos /\ ovPos <= ovLen
=============================================================================
