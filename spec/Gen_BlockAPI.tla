---------------------------- MODULE Gen_BlockAPI ----------------------------
(* Exhaustive API histories of BlockAPI up to MaxCalls calls, exported as   *)
(* test cases: which object serves which input slot with which depth and    *)
(* destination class, in which order (reuse of an object across unrelated   *)
(* inputs, pooled objects in between).  The harness concretises the slots.  *)
EXTENDS BlockAPI, Json

GObjects == {<<"fast", "f1">>, <<"fast", "pool">>, <<"hc", "h1">>, <<"hc", "pool">>}
GInputs == {"A", "B", "C"}
GDepths == {0, 1, 3}
GDst == {"bound", "small"}

\* symmetry by hand: the first call always uses slot A, histories are canonical in the
\* order in which slots first appear (A before B before C)
Canonical ==
    LET first(s) == IF \E i \in 1 .. Len(hist) : hist[i].input = s
                    THEN CHOOSE i \in 1 .. Len(hist) : hist[i].input = s /\ \A j \in 1 .. i - 1 : hist[j].input # s
                    ELSE 99
    IN  first("A") <= first("B") /\ first("B") <= first("C")

Emit == (ncalls = MaxCalls /\ Canonical) => PrintT(ToJson([kind |-> "api_history", calls |-> hist]))
=============================================================================
