SPECIFICATION TraceSpec
CONSTANTS
  TraceFile = "trace.ndjson"
  Prop = "C09"
POSTCONDITION TraceAccepted
CHECK_DEADLOCK FALSE
