-------------------------- MODULE ReaderWindowInd --------------------------
(***************************************************************************)
(* C16, unbounded: the Reader's history window (reader.go: read) under the *)
(* trim rule, with the implementation's constants, for EVERY sequence of   *)
(* block sizes 0 .. 4 MiB.  IndInv is inductive (checked by Apalache:      *)
(* IndInit => IndInv trivially, IndInv /\ Next => IndInv'), and it implies  *)
(* that every offset <= 65535 a valid frame may use is resolvable and that  *)
(* the trim slice r.dict[len(r.dict)-preserve:] is always in bounds.        *)
(* Same transition as Reader!BlockDone / Reader!Trim.                       *)
(***************************************************************************)
EXTENDS Integers

W == 65536
MaxBlock == 4194304

VARIABLES
    \* @type: Int;
    window,
    \* @type: Int;
    decoded

Min(a, b) == IF a < b THEN a ELSE b
Max(a, b) == IF a > b THEN a ELSE b

Trim(win, b) == IF win + b > 2 * W THEN Max(W - b, 0) ELSE win

Init == window = 0 /\ decoded = 0

Next == \E b \in 0 .. MaxBlock :
           /\ window' = Trim(window, b) + b
           /\ decoded' = decoded + b

IndInv ==
    /\ window >= 0 /\ decoded >= 0
    /\ window <= decoded
    /\ window >= Min(W, decoded)
    /\ window <= 2 * W + MaxBlock

\* the invariant as an initial condition, for the inductive step
IndInit == window \in Int /\ decoded \in Int /\ IndInv

\* consequence used by C16: the slice expression of the trim never reaches before the window
TrimInBounds == \A b \in 0 .. MaxBlock : (window + b > 2 * W) => Max(W - b, 0) <= window
=============================================================================
