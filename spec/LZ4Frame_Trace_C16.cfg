SPECIFICATION TraceSpec
CONSTANTS
  TraceFile = "trace.ndjson"
  Prop = "C16"
POSTCONDITION TraceAccepted
CHECK_DEADLOCK FALSE
