------------------------------ MODULE MC_Writer ------------------------------
(* Bounded exploration of Writer: every call sequence up to MaxCalls calls   *)
(* with write sizes from WriteSizes, B small.  Also exported as call-history *)
(* test cases (C02 / C17): one case per maximal behaviour.                   *)
EXTENDS Writer, TLC, Json

CONSTANTS WriteSizes, MaxCalls

VARIABLES calls

mcvars == <<wvars, calls>>

MCInit == Init /\ calls = <<>>

Step(op, n, act) == act /\ calls' = Append(calls, [op |-> op, n |-> n])

MCNext ==
    /\ Len(calls) < MaxCalls
    /\ \/ \E n \in WriteSizes : Step("write", n, Write(n)) \/ Step("write", n, WriteAfterClose)
       \/ Step("flush", 0, Flush)
       \/ Step("close", 0, Close) \/ Step("close", 0, CloseAgain)
       \/ \E n \in WriteSizes : Step("readfrom", n, ReadFrom(n)) \/ Step("readfrom", n, ReadFromLate)
       \/ Step("reset", 0, Reset)
       \/ Step("apply", 0, ApplyLate)

MCSpec == MCInit /\ [][MCNext]_mcvars

\* the same exploration with a sink that may fail during any call (C15 at design level)
FaultNext == \/ MCNext
             \/ (Len(calls) < MaxCalls /\ Step("sinkfail", 0, SinkFails))
             \/ (Len(calls) < MaxCalls /\ Step("flushfail", 0, FlushFails))
FaultSpec == MCInit /\ [][FaultNext]_mcvars
\* a failure reported by Write / ReadFrom / the trailer of Close is sticky: no further output
FailureIsSticky == (failed /\ ws = "error") => ~ENABLED Write(1)

Emit == Len(calls) = MaxCalls => PrintT(ToJson([kind |-> "writer_history", calls |-> calls]))
=============================================================================
