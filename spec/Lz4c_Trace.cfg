SPECIFICATION TraceSpec
CONSTANTS
  TraceFile = "trace.ndjson"
POSTCONDITION TraceAccepted
CHECK_DEADLOCK FALSE
