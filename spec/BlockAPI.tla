------------------------------ MODULE BlockAPI ------------------------------
(***************************************************************************)
(* The block-compression API as a state machine (C01, C10, C11, C14).      *)
(*                                                                         *)
(* Compressor objects (fast and HC, caller-owned or taken from the package *)
(* pools by the package-level functions) are used any number of times on   *)
(* any inputs.  The model keeps, per object, how often it was used, and a  *)
(* global memo of what each call key produced.  A call key is everything   *)
(* the output is allowed to depend on: (input, kind, depth, len(dst)).     *)
(*                                                                         *)
(*   Call(o, in, depth, dst, out)   one CompressBlock call and its result  *)
(*                                                                         *)
(* Determinism (C14) is the enabling condition of Call: a key that was     *)
(* seen before must produce the same output again, whatever object served  *)
(* it and whatever that object did before.  The per-call obligations of    *)
(* C01/C10/C11 (round trip, strict validity, destination contract) are     *)
(* predicates over one call's observation, stated in BlockAPI_Trace.       *)
(***************************************************************************)
EXTENDS Integers, Sequences, FiniteSets, TLC

CONSTANTS Objects,      \* compressor objects, e.g. fast1, fast2, hc1, pkgfast, pkghc
          Inputs,       \* input slots
          Depths,       \* search depths (0 for the fast compressor)
          DstClasses,   \* destination-length classes
          MaxCalls

VARIABLES uses,         \* object -> number of calls served
          memo,         \* call key -> output id (partial function, as a set of pairs)
          ncalls,
          hist          \* the call history (exported as a test case)

bvars == <<uses, memo, ncalls, hist>>

Kind(o) == o[1]                       \* objects are <<kind, name>>
Key(o, in, depth, dst) == <<in, Kind(o), depth, dst>>

Lookup(k) == {p[2] : p \in {q \in memo : q[1] = k}}

Init == /\ uses = [o \in Objects |-> 0]
        /\ memo = {}
        /\ ncalls = 0
        /\ hist = <<>>

\* one call; `out' is the identity of the produced bytes (or of the failure)
Call(o, in, depth, dst, out) ==
    /\ (Kind(o) = "fast" => depth = 0)
    /\ LET k == Key(o, in, depth, dst)
       IN  /\ Lookup(k) \subseteq {out}              \* C14: same key, same output
           /\ memo' = memo \cup {<<k, out>>}
    /\ uses' = [uses EXCEPT ![o] = @ + 1]
    /\ ncalls' = ncalls + 1
    /\ hist' = Append(hist, [obj |-> o, input |-> in, depth |-> depth, dst |-> dst])

\* exploration: outputs are abstractly a function of the key
F(k) == k
Next == /\ ncalls < MaxCalls
        /\ \E o \in Objects, in \in Inputs, d \in Depths, c \in DstClasses :
              Call(o, in, d, c, F(Key(o, in, d, c)))

Spec == Init /\ [][Next]_bvars

Deterministic == \A p, q \in memo : p[1] = q[1] => p[2] = q[2]
=============================================================================
