INIT Init
NEXT Next
CONSTANT MaxN = 300000
INVARIANTS Sufficient Slack
