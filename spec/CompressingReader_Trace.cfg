SPECIFICATION TraceSpec
CONSTANTS
  TraceFile = "trace.ndjson"
INVARIANTS
  NothingLostNothingTwice
  OvBounds
POSTCONDITION TraceAccepted
CHECK_DEADLOCK FALSE
