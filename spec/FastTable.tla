------------------------------ MODULE FastTable ------------------------------
(***************************************************************************)
(* The fast compressor's hash table keeps only the low 16 bits of a match  *)
(* position (block.go: Compressor.get / put).  A position p is stored as   *)
(* p mod W; get(si) re-bases it to the 64 KiB segment of si, or the one    *)
(* before.  These are the arithmetic facts C01 and C10 lean on:            *)
(*   InWindowExact  a candidate less than W back is returned exactly       *)
(*   AlwaysBehind   whatever the table holds, the candidate is before si   *)
(*                  and less than 2W back                                  *)
(*   StaleAliases   an older position comes back as an alias inside the    *)
(*                  last 2W bytes - which is why the compressor must both  *)
(*                  bound the offset (< W) and compare the bytes           *)
(* Checked by TLC exhaustively at W = 8 (MC) and by Apalache for W = 65536 *)
(* and positions up to 4 MiB (FastTableInd: same definitions, typed).      *)
(***************************************************************************)
EXTENDS Integers

CONSTANTS W, MaxPos

VARIABLES
    \* @type: Int;
    si,
    \* @type: Int;
    p

\* Compressor.get with the table holding p mod W
Get(s, t) ==
    LET i == t + (s - (s % W))
    IN  IF i >= s THEN i - W ELSE i

Init == si \in 1 .. MaxPos /\ p \in 0 .. MaxPos /\ p < si
Next == UNCHANGED <<si, p>>

InWindowExact == (si - p < W) => Get(si, p % W) = p
AlwaysBehind == Get(si, p % W) < si /\ Get(si, p % W) >= si - 2 * W
\* (the alias can be exactly W back - when si - p is a multiple of W it is p itself or a later alias at
\* distance W - which no 16-bit offset can express: hence the guard `offset >= winSize', not `>')
StaleAliases == (si - p >= W) => /\ Get(si, p % W) >= p
                                 /\ (Get(si, p % W) - p) % W = 0
                                 /\ si - Get(si, p % W) <= W
                                 /\ si - Get(si, p % W) >= 1
DistanceWOccurs == (si - p = W) => si - Get(si, p % W) = W
=============================================================================
