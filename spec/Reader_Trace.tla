----------------------------- MODULE Reader_Trace -----------------------------
(***************************************************************************)
(* Trace validation of recorded Reader call sequences on VALID frames      *)
(* against Reader.tla (C02, C16, C17).                                     *)
(*                                                                         *)
(* Events                                                                  *)
(*   rnew   total conc           a Reader on a source holding a valid      *)
(*                               frame of `total' content bytes            *)
(*   rcall  op sz n err cons     one call: op "read" (buffer size sz),     *)
(*                               "writeto", "size" (value in field size),  *)
(*                               "apply", "reset" (same source again);     *)
(*                               returned count, error class, source bytes *)
(*                               consumed during the call                  *)
(*   rall   n err                all remaining Read calls of a long run,   *)
(*                               aggregated (count of bytes, final error)  *)
(*   rend   same size            delivered bytes equal the content; Size() *)
(*   rblock b dict               (hook) a block of b bytes was decoded,    *)
(*                               len(dict) afterwards: binds `window'      *)
(***************************************************************************)
EXTENDS Reader, TLC, Json

CONSTANTS TraceFile

Trace == ndJsonDeserialize(TraceFile)

VARIABLES l, linked, declared,
          latch      \* "eof" once a Read has reported the end of the stream: only then may WriteTo at the end
                     \* report an error as well (the code wraps the latched end-of-stream error); cleared by Reset

tvars == <<rvars, l, linked, declared, latch>>

TraceInit == InitWith(0) /\ l = 1 /\ linked = FALSE /\ declared = <<0, 0, 0, 0>> /\ latch = "none"

Ev(e) == l <= Len(Trace) /\ Trace[l].ev = e /\ l' = l + 1

TrNew == Ev("rnew") /\ Reset(Trace[l].total) /\ linked' = Trace[l].linked /\ declared' = Trace[l].declared /\ latch' = "none"

TrCall ==
    /\ Ev("rcall") /\ UNCHANGED <<linked, declared>>
    /\ latch' = (CASE Trace[l].op = "read" /\ Trace[l].err = "eof" -> "eof"
                   [] Trace[l].op = "reset" -> "none"
                   [] OTHER -> latch)
    \* the lifecycle state the code reports after the call (verif accessor; "" when not logged) is the model's
    /\ (Trace[l].st # "" => rs' = Trace[l].st)
    /\ LET r == Trace[l]
       IN  CASE r.op = "read" ->
                  \/ /\ Read(r.sz)
                     /\ r.n = ReadRet(r.sz)
                     /\ r.err = (IF ReadHitsEnd(r.sz) THEN "eof" ELSE "none")
                  \/ ReadAtEnd /\ r.n = 0 /\ r.err = "eof" /\ r.cons = 0      \* C17(5)
                  \/ InError /\ r.n = 0 /\ r.err \notin {"none", "eof"}
             [] r.op = "writeto" ->
                  \/ WriteTo /\ r.n = total - delivered /\ r.err = "none"
                  \/ WriteToLate /\ r.err \notin {"none", "eof"}
                  \* what WriteTo says at the end is (0, nil) or the end-of-stream error latched by an earlier Read: the
                  \* properties do not choose; "Reset = new object" is checked by comparison with a new object (C17)
                  \/ WriteToAtEnd /\ r.n = 0 /\ r.cons = 0 /\ (r.err # "none" => latch = "eof")
                  \/ InError /\ r.n = 0 /\ r.err \notin {"none", "eof"}
             [] r.op = "size" ->
                  /\ UNCHANGED rvars
                  /\ (SizeKnown => r.size = declared)
                  /\ (rs = "new" => r.size = <<0, 0, 0, 0>>)
             [] r.op = "apply" ->
                  \/ ApplyEarly /\ r.err = "none"
                  \/ ApplyLate /\ r.err # "none"
                  \/ InError /\ r.err # "none"
             [] r.op = "reset" -> Reset(total)

TrAll ==
    /\ Ev("rall") /\ UNCHANGED <<linked, declared>> /\ latch' = "eof"
    /\ rs \in {"new", "read"}
    /\ Trace[l].n = total - delivered /\ Trace[l].err = "eof"
    /\ delivered' = total /\ rs' = "closed" /\ UNCHANGED <<total, window>>

TrBlock ==
    /\ Ev("rblock") /\ UNCHANGED <<linked, declared, latch>>
    /\ IF linked THEN BlockDone(Trace[l].b) /\ window' = Trace[l].dict
       ELSE Trace[l].dict = 0 /\ UNCHANGED rvars

TrEnd ==
    /\ Ev("rend") /\ UNCHANGED <<rvars, linked, declared, latch>>
    /\ Trace[l].prefixok                       \* whatever was delivered is a prefix of the content
    /\ Trace[l].clean                          \* no panic, no call that did not return
    /\ rs = "closed" => Trace[l].same /\ delivered = total

TraceNext == TrNew \/ TrCall \/ TrAll \/ TrBlock \/ TrEnd

TraceSpec == TraceInit /\ [][TraceNext]_tvars

TraceAccepted == TLCGet("stats").diameter = Len(Trace) + 1
=============================================================================
