SPECIFICATION Spec
CONSTANTS
  ReadSizes = {0, 1, 3, 6, 7, 8, 15, 40}
  MaxReads = 5
  MaxLives = 2
INVARIANTS
  NothingLostNothingTwice
  OvBounds
  AtMostLenP
  Progress
  EOFOnlyWhenDrained
  ErrorPassedThrough
CHECK_DEADLOCK FALSE
