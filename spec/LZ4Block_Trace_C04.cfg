SPECIFICATION TraceSpec
CONSTANTS
  TraceFile = "trace.ndjson"
  Prop = "C04"
POSTCONDITION TraceAccepted
CHECK_DEADLOCK FALSE
