------------------------------- MODULE Writer -------------------------------
(***************************************************************************)
(* The frame Writer as a state machine over lengths (content is not        *)
(* modelled: bytes are identified by their position in the accepted        *)
(* stream).                                                                *)
(*                                                                         *)
(* State                                                                   *)
(*   ws        lifecycle: "new" "write" "closed" "error"                   *)
(*   pending   bytes accumulated and not yet cut into a block (0 .. B-1)   *)
(*   accepted  bytes accepted since the frame began                        *)
(*   items     what has been handed to the sink/pipeline for this frame,   *)
(*             in order: H (-1) header, a natural = a data block of that   *)
(*             many source bytes, T (-2) trailer (TLC cannot compare       *)
(*             strings with integers, hence the numeric tags)              *)
(*   frames    item lists of earlier frames, archived by Reset, with a flag *)
(*             telling whether the frame had been closed successfully       *)
(*   failed    the sink has reported a failure                             *)
(*   done      the current frame has been closed successfully              *)
(*   hcalls    OnBlockDone callbacks owed for this frame: one per block     *)
(*             (stored size), and one more per block cut by ReadFrom       *)
(*             (which also reports the bytes it read)                      *)
(*                                                                         *)
(* One action per public call; each mirrors the code path of writer.go:    *)
(* Write cuts full blocks of exactly B bytes (zero-copy or accumulate path *)
(* - same cut points), Flush cuts a short block, Close = Flush + trailer,  *)
(* ReadFrom cuts B-byte blocks and always ends with one (possibly empty)   *)
(* short block, Reset abandons the frame, Apply is accepted only before    *)
(* the first write.  SinkFails may make any sink-touching call fail; from  *)
(* then on every call fails (sticky error).                                *)
(***************************************************************************)
EXTENDS Integers, Sequences

CONSTANTS B,            \* block size in bytes
          Legacy        \* legacy frames have no trailer

VARIABLES ws, pending, accepted, items, frames, failed, done, hcalls

wvars == <<ws, pending, accepted, items, frames, failed, done, hcalls>>

H == 0 - 1
T == 0 - 2

Init ==
    /\ ws = "new" /\ pending = 0 /\ accepted = 0
    /\ items = <<>> /\ frames = <<>> /\ failed = FALSE /\ done = FALSE /\ hcalls = 0

\* k full blocks of B bytes
RECURSIVE Fulls(_)
Fulls(k) == IF k = 0 THEN <<>> ELSE <<B>> \o Fulls(k - 1)

Started == IF ws = "new" THEN <<H>> ELSE <<>>

\* ---- the calls ------------------------------------------------------------
\* Write(n): accepted only in "new"/"write"
Write(n) ==
    /\ ws \in {"new", "write"} /\ ~failed
    /\ items' = items \o Started \o Fulls((pending + n) \div B)
    /\ pending' = (pending + n) % B
    /\ accepted' = accepted + n
    /\ ws' = "write"
    /\ hcalls' = hcalls + ((pending + n) \div B)
    /\ UNCHANGED <<frames, failed, done>>

Flush ==
    /\ ws \in {"new", "write"} /\ ~failed
    /\ items' = items \o Started \o (IF pending > 0 THEN <<pending>> ELSE <<>>)
    /\ pending' = 0
    /\ ws' = "write"
    /\ hcalls' = hcalls + (IF pending > 0 THEN 1 ELSE 0)
    /\ UNCHANGED <<accepted, frames, failed, done>>

\* Close = Flush, then the trailer (end mark [+ content checksum]); legacy: nothing
Close ==
    /\ ws \in {"new", "write"} /\ ~failed
    /\ items' = items \o Started \o (IF pending > 0 THEN <<pending>> ELSE <<>>)
                \o (IF Legacy THEN <<>> ELSE <<T>>)
    /\ pending' = 0
    /\ ws' = "closed" /\ done' = TRUE
    /\ hcalls' = hcalls + (IF pending > 0 THEN 1 ELSE 0)
    /\ UNCHANGED <<accepted, frames, failed>>

\* ReadFrom a source of n bytes: only on a Writer that has not written yet
ReadFrom(n) ==
    /\ ws = "new" /\ ~failed
    /\ items' = items \o <<H>> \o Fulls(n \div B) \o <<n % B>>
    /\ accepted' = accepted + n
    /\ pending' = 0
    /\ ws' = "write"
    /\ hcalls' = hcalls + 2 * ((n \div B) + 1)
    /\ UNCHANGED <<frames, failed, done>>

\* Reset: the frame in progress is abandoned as it is; a closed one is archived
Reset ==
    /\ frames' = Append(frames, [items |-> items, closed |-> done, accepted |-> accepted, hcalls |-> hcalls])
    /\ items' = <<>> /\ pending' = 0 /\ accepted' = 0
    /\ ws' = "new" /\ failed' = FALSE /\ done' = FALSE /\ hcalls' = 0

\* calls that are refused and change nothing but possibly the lifecycle state
\* (a refused call leaves the Writer in its error state - that is what the code does - but the frame
\* that was closed before stays what it was: done is not touched)
Keep5 == UNCHANGED <<pending, accepted, items, frames, failed, done, hcalls>>
\* (whether a refused call leaves a closed Writer closed or puts it in error is not observable through the properties -
\* every later call is refused either way; the code does the one for Write and the other for ReadFrom, and the trace
\* specification resolves the choice with the state the code reports)
WriteAfterClose == ws \in {"closed", "error"} /\ ws' \in {ws, "error"} /\ Keep5
CloseAgain      == ws = "closed" /\ UNCHANGED wvars
ApplyLate       == ws \in {"write", "closed"} /\ ws' = "error" /\ Keep5
\* ReadFrom after a write is refused and leaves the Writer in error; after Close it is refused too but, unlike
\* Write after Close, leaves the Writer closed (writer.go: ReadFrom returns before installing the deferred state
\* check) - found by binding the lifecycle state the code reports (verif accessor) to ws
ReadFromLate    == \/ ws = "write" /\ ws' = "error" /\ Keep5
                   \/ ws = "closed" /\ ws' \in {"closed", "error"} /\ Keep5

\* the sink reports a failure during a call that touches it: the Writer is in error from then on
SinkFails ==
    /\ ws \in {"new", "write"} /\ ~failed
    /\ failed' = TRUE /\ ws' = "error"
    /\ UNCHANGED <<pending, accepted, items, frames, done, hcalls>>

\* Flush - alone or as the first half of Close - reports a sink failure but, unlike the other calls,
\* does not put the Writer into its error state (writer.go: Flush has no state check): the pending
\* bytes stay pending and the next call tries again.  C15 only asks that the failure be reported.
FlushFails ==
    /\ ws \in {"new", "write"} /\ ~failed
    /\ failed' = TRUE
    /\ UNCHANGED <<ws, pending, accepted, items, frames, done, hcalls>>

\* ---- properties -----------------------------------------------------------
IsBlock(x) == x >= 0

RECURSIVE SumBlocks(_, _)
SumBlocks(s, k) == IF k = 0 THEN 0 ELSE SumBlocks(s, k - 1) + (IF IsBlock(s[k]) THEN s[k] ELSE 0)

\* C02/C17(1): everything accepted is in a block or still pending - nothing lost, nothing twice
Conservation == SumBlocks(items, Len(items)) + pending = accepted

\* after Close the frame is exactly header, blocks, trailer and carries everything accepted
ClosedFrameComplete ==
    done =>
        /\ pending = 0
        /\ items # <<>> /\ items[1] = H
        /\ (~Legacy => items[Len(items)] = T)
        /\ \A k \in 2 .. Len(items) - (IF Legacy THEN 0 ELSE 1) : IsBlock(items[k])

\* C14 (partition independence): blocks not closed by Flush/Close/ReadFrom's end have exactly B bytes
BlocksAreFull ==
    \A k \in 1 .. Len(items) : IsBlock(items[k]) => items[k] <= B

PendingBounded == pending >= 0 /\ pending < B

\* one callback per block, one more per ReadFrom block
HandlerAccounting == hcalls >= Len(SelectSeq(items, IsBlock)) /\ hcalls <= 2 * Len(SelectSeq(items, IsBlock))

AtMostOneHeader ==
    \A i, j \in 1 .. Len(items) : (items[i] = H /\ items[j] = H) => i = j
=============================================================================
