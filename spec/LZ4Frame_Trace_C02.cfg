SPECIFICATION TraceSpec
CONSTANTS
  TraceFile = "trace.ndjson"
  Prop = "C02"
POSTCONDITION TraceAccepted
CHECK_DEADLOCK FALSE
