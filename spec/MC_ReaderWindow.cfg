SPECIFICATION Spec
CONSTANTS
  W = 4
  MaxBlock = 11
  MaxDecoded = 40
INVARIANTS
  WindowSuffices
  WindowBounded
  TrimInBounds
  DeliveredIsPrefix
CHECK_DEADLOCK FALSE
