SPECIFICATION GenSpec
CONSTANTS
  WriteLens <- GenWriteLens
  MaxWrites <- GenMaxWrites
CHECK_DEADLOCK FALSE
