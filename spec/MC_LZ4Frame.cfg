SPECIFICATION Spec
CONSTANTS
  MaxBlocks = 2
INVARIANTS
  ParserInvertsEncoder
  PrefixesAreTruncated
  TrailingBytesIgnored
  SkippablePrefix
CHECK_DEADLOCK FALSE
