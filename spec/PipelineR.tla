------------------------------ MODULE PipelineR ------------------------------
(***************************************************************************)
(* The concurrent Reader pipeline (lz4stream/block.go: Blocks.initR,       *)
(* reader.go: Read / WriteTo in concurrent mode) with Go channel semantics.*)
(*                                                                         *)
(*   reader     reads blocks from the source one after the other; for each *)
(*              it queues a fresh channel on the bounded queue `q' and     *)
(*              starts a decoder; it stops at the end mark, on a source    *)
(*              error, or when a decoder has reported an error; then it    *)
(*              queues a sentinel channel, sends nil on it, waits for its  *)
(*              closing, latches the final error and closes `data'.        *)
(*   decoder i  decodes block i and sends the result on its channel, or    *)
(*              latches the error and closes the channel.                  *)
(*   collector  takes channels from the queue in order; a closed channel   *)
(*              switches it to skipping; the sentinel ends it; otherwise   *)
(*              it feeds the content checksum and hands the block to the   *)
(*              consumer over the unbuffered channel `data'.               *)
(*   consumer   the caller's Read / WriteTo loop: receives blocks until    *)
(*              `data' is closed, then asks for the latched error.         *)
(***************************************************************************)
EXTENDS Integers, Sequences, FiniteSets

CONSTANTS N,            \* data blocks in the source before its end mark
          Num,          \* capacity of the queue
          DecodeFailAt, \* this block fails to decode (0 = none)
          SourceFailAt, \* reading this block from the source fails (0 = none; N+1 = at the end mark)
          EmptyBlocks   \* blocks that decode to zero bytes

Blocks == 1 .. N
Sentinel == N + 1

VARIABLES
    rpc,      \* reader: "check" "readsrc" "recheck" "enqueue" "spawn" "finq" "finsend" "finwait" "finclose" "done"
    rnext,    \* block being read
    rerr,     \* what ended the reader's loop: "none" "eof" "source"
    q,        \* queue of per-block channels
    dpc,      \* decoder i: "idle" "decode" "offer" "offered" "done"
    cpc,      \* collector: "dequeue" "take" "deliver" "delivered" "closec" "done"
    ccur, skip,
    chan,     \* per channel: "empty" "full" "taken" "closed"
    data,     \* the consumer channel: "empty" "full" (collector blocked in send) "closed"
    dataVal,  \* the block being handed over
    upc,      \* consumer: "recv" "done"
    got,      \* blocks received by the consumer, in order
    latched,  \* Blocks.err: "none" "decode" "eof" "source"
    result    \* what the consumer finally reports

vars == <<rpc, rnext, rerr, q, dpc, cpc, ccur, skip, chan, data, dataVal, upc, got, latched, result>>

Init ==
    /\ rpc = "check" /\ rnext = 1 /\ rerr = "none" /\ q = <<>>
    /\ dpc = [i \in Blocks |-> "idle"]
    /\ cpc = "dequeue" /\ ccur = 0 /\ skip = FALSE
    /\ chan = [i \in 1 .. Sentinel |-> "empty"]
    /\ data = "empty" /\ dataVal = 0
    /\ upc = "recv" /\ got = <<>> /\ latched = "none" /\ result = "none"

\* closeR: keep the first error
Latch(e) == IF latched = "none" THEN e ELSE latched

\* ---- reader -------------------------------------------------------------------
RCheck ==      \* for b.ErrorR() == nil
    /\ rpc = "check"
    /\ rpc' = IF latched = "none" THEN "readsrc" ELSE "finq"
    /\ UNCHANGED <<rnext, rerr, q, dpc, cpc, ccur, skip, chan, data, dataVal, upc, got, latched, result>>

RReadSrc ==    \* block.Read(f, src, 0)
    /\ rpc = "readsrc"
    /\ IF rnext = SourceFailAt THEN rerr' = "source" /\ rpc' = "finq"
       ELSE IF rnext = Sentinel THEN rerr' = "eof" /\ rpc' = "finq"
       ELSE rerr' = rerr /\ rpc' = "recheck"
    /\ UNCHANGED <<rnext, q, dpc, cpc, ccur, skip, chan, data, dataVal, upc, got, latched, result>>

RRecheck ==    \* "Recheck for an error as reading may be slow"
    /\ rpc = "recheck"
    /\ rpc' = IF latched = "none" THEN "enqueue" ELSE "finq"
    /\ UNCHANGED <<rnext, rerr, q, dpc, cpc, ccur, skip, chan, data, dataVal, upc, got, latched, result>>

REnqueue ==    \* blocks <- c
    /\ rpc = "enqueue" /\ Len(q) < Num
    /\ q' = Append(q, rnext)
    /\ rpc' = "spawn"
    /\ UNCHANGED <<rnext, rerr, dpc, cpc, ccur, skip, chan, data, dataVal, upc, got, latched, result>>

RSpawn ==
    /\ rpc = "spawn"
    /\ dpc' = [dpc EXCEPT ![rnext] = "decode"]
    /\ rnext' = rnext + 1
    /\ rpc' = "check"
    /\ UNCHANGED <<rerr, q, cpc, ccur, skip, chan, data, dataVal, upc, got, latched, result>>

RFinQueue ==   \* blocks <- c (sentinel)
    /\ rpc = "finq" /\ Len(q) < Num
    /\ q' = Append(q, Sentinel)
    /\ rpc' = "finsend"
    /\ UNCHANGED <<rnext, rerr, dpc, cpc, ccur, skip, chan, data, dataVal, upc, got, latched, result>>

RFinSend ==    \* c <- nil
    /\ rpc = "finsend" /\ chan[Sentinel] = "empty"
    /\ chan' = [chan EXCEPT ![Sentinel] = "full"]
    /\ rpc' = "finwait"
    /\ UNCHANGED <<rnext, rerr, q, dpc, cpc, ccur, skip, data, dataVal, upc, got, latched, result>>

RFinWait ==    \* <-c
    /\ rpc = "finwait" /\ chan[Sentinel] = "closed"
    /\ rpc' = "finclose"
    /\ UNCHANGED <<rnext, rerr, q, dpc, cpc, ccur, skip, chan, data, dataVal, upc, got, latched, result>>

RFinClose ==   \* b.closeR(err); close(data)
    /\ rpc = "finclose"
    /\ latched' = Latch(IF rerr = "none" THEN "none" ELSE rerr)
    /\ data' = "closed"
    /\ rpc' = "done"
    /\ UNCHANGED <<rnext, rerr, q, dpc, cpc, ccur, skip, chan, dataVal, upc, got, result>>

\* ---- decoder i -----------------------------------------------------------------
DDecode(i) ==
    /\ dpc[i] = "decode"
    /\ IF i = DecodeFailAt
       THEN /\ latched' = Latch("decode")                       \* b.closeR(err)
            /\ chan' = [chan EXCEPT ![i] = "closed"]             \* close(c)
            /\ dpc' = [dpc EXCEPT ![i] = "done"]
       ELSE /\ dpc' = [dpc EXCEPT ![i] = "offer"]
            /\ UNCHANGED <<latched, chan>>
    /\ UNCHANGED <<rpc, rnext, rerr, q, cpc, ccur, skip, data, dataVal, upc, got, result>>

DOffer(i) ==   \* c <- data
    /\ dpc[i] = "offer" /\ chan[i] = "empty"
    /\ chan' = [chan EXCEPT ![i] = "full"]
    /\ dpc' = [dpc EXCEPT ![i] = "offered"]
    /\ UNCHANGED <<rpc, rnext, rerr, q, cpc, ccur, skip, data, dataVal, upc, got, latched, result>>

DOffered(i) ==
    /\ dpc[i] = "offered" /\ chan[i] \in {"taken", "closed"}
    /\ dpc' = [dpc EXCEPT ![i] = "done"]
    /\ UNCHANGED <<rpc, rnext, rerr, q, cpc, ccur, skip, chan, data, dataVal, upc, got, latched, result>>

\* ---- collector -------------------------------------------------------------------
CDequeue ==
    /\ cpc = "dequeue" /\ q # <<>>
    /\ ccur' = Head(q) /\ q' = Tail(q)
    /\ cpc' = "take"
    /\ UNCHANGED <<rpc, rnext, rerr, dpc, skip, chan, data, dataVal, upc, got, latched, result>>

CTake ==       \* buf, ok := <-c
    /\ cpc = "take"
    /\ \/ /\ chan[ccur] = "closed"                               \* !ok: a decoder failed
          /\ skip' = TRUE /\ cpc' = "dequeue" /\ UNCHANGED chan
       \/ /\ chan[ccur] = "full"
          /\ chan' = [chan EXCEPT ![ccur] = "taken"]
          /\ skip' = skip
          /\ cpc' = IF ccur = Sentinel THEN "closec"
                    ELSE IF skip THEN "dequeue" ELSE "deliver"
    /\ UNCHANGED <<rpc, rnext, rerr, q, dpc, ccur, data, dataVal, upc, got, latched, result>>

CDeliver ==    \* data <- buf
    /\ cpc = "deliver" /\ data = "empty"
    /\ data' = "full" /\ dataVal' = ccur
    /\ cpc' = "delivered"
    /\ UNCHANGED <<rpc, rnext, rerr, q, dpc, ccur, skip, chan, upc, got, latched, result>>

CDelivered ==  \* the send completed (the consumer took the block)
    /\ cpc = "delivered" /\ data = "empty"
    /\ cpc' = "closec"
    /\ UNCHANGED <<rpc, rnext, rerr, q, dpc, ccur, skip, chan, data, dataVal, upc, got, latched, result>>

CClose ==      \* close(c); the sentinel ends the collector
    /\ cpc = "closec"
    /\ chan' = [chan EXCEPT ![ccur] = "closed"]
    /\ cpc' = IF ccur = Sentinel THEN "done" ELSE "dequeue"
    /\ UNCHANGED <<rpc, rnext, rerr, q, dpc, ccur, skip, data, dataVal, upc, got, latched, result>>

\* ---- consumer --------------------------------------------------------------------
URecv ==       \* r.data, ok = <-r.reads; only the closed channel makes the consumer ask for the latched error
               \* (before fix 062dfed an empty block did too, and with a decoding error already latched the
               \* consumer left while the collector was still delivering: TLC's counterexample to NoGoroutineLeft
               \* at N = 4, Num = 3, DecodeFailAt = 4, EmptyBlocks = {1}, reproduced on the code as D25)
    /\ upc = "recv"
    /\ \/ /\ data = "full"
          /\ got' = Append(got, dataVal)
          /\ data' = "empty"
          /\ UNCHANGED <<upc, result>>
       \/ /\ data = "closed"                                      \* !ok: ask for the latched error
          /\ result' = latched
          /\ upc' = "done"
          /\ UNCHANGED <<got, data>>
    /\ UNCHANGED <<rpc, rnext, rerr, q, dpc, cpc, ccur, skip, chan, dataVal, latched>>

Next ==
    \/ RCheck \/ RReadSrc \/ RRecheck \/ REnqueue \/ RSpawn \/ RFinQueue \/ RFinSend \/ RFinWait \/ RFinClose
    \/ \E i \in Blocks : DDecode(i) \/ DOffer(i) \/ DOffered(i)
    \/ CDequeue \/ CTake \/ CDeliver \/ CDelivered \/ CClose
    \/ URecv

Started(i) == dpc[i] # "idle"
AllDone == upc = "done" /\ rpc = "done" /\ cpc = "done" /\ \A i \in Blocks : dpc[i] \in {"idle", "done"}
Terminating == AllDone /\ UNCHANGED vars

Spec == Init /\ [][Next \/ Terminating]_vars /\ WF_vars(Next)

\* ---- properties (C08) ---------------------------------------------------------------
\* the consumer sees blocks 1, 2, 3, ... without gap or repetition
Ordered == got = [k \in 1 .. Len(got) |-> k]

\* at the end of the stream everything was delivered; after an error the error is what is reported
FinalResult ==
    upc = "done" =>
        /\ result # "none"
        /\ (result = "eof" => Len(got) = N)
        /\ (DecodeFailAt = 0 /\ SourceFailAt = 0 => result = "eof")
        /\ (result = "decode" => Len(got) < DecodeFailAt)

\* C08 leak clause: once the consumer has been told the end / the error, no goroutine of the pipeline is
\* blocked: reader and collector have finished, every decoder has finished or can finish on its own
NoGoroutineLeft ==
    upc = "done" =>
        /\ rpc = "done" /\ cpc = "done"
        /\ \A i \in Blocks : dpc[i] \in {"idle", "done"} \/ (dpc[i] = "offered" /\ chan[i] \in {"taken", "closed"})

\* every block before the failing one is delivered before the decoding error is reported
DeliveredBeforeError ==
    upc = "done" /\ result = "decode" /\ SourceFailAt = 0 => Len(got) = DecodeFailAt - 1

EventuallyAllDone == <>AllDone
=============================================================================
