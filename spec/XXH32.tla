------------------------------- MODULE XXH32 --------------------------------
(***************************************************************************)
(* XXH32 with seed 0, from the xxHash specification                        *)
(* (https://github.com/Cyan4973/xxHash/blob/dev/doc/xxhash_spec.md), in    *)
(* arithmetic that TLC can execute (module Bits32).                        *)
(*                                                                         *)
(*  - XXH32(s): the one-shot function on a byte sequence.                  *)
(*  - the streaming machine of the reference implementation (XXH32_reset / *)
(*    XXH32_update / XXH32_digest): state [v, total, buf], operators       *)
(*    StReset, StWrite(st, chunk), StSum(st).  `total' is a 64-bit counter *)
(*    and the lanes are used iff total >= 16 (the reference's large_len).  *)
(*                                                                         *)
(* The state machine over these operators is module XXH32Machine.          *)
(***************************************************************************)
EXTENDS Bits32

P1 == <<40503, 31153>>   \* 2654435761
P2 == <<34283, 51831>>   \* 2246822519
P3 == <<49842, 44605>>   \* 3266489917
P4 == <<10196, 60207>>   \*  668265263
P5 == <<5718, 26545>>    \*  374761393

\* Seed 0 initial accumulators: P1+P2, P2, 0, -P1
InitLanes == << Add32(P1, P2), P2, Zero32, Neg32(P1) >>

WordAt(s, i) == LE32(s[i], s[i + 1], s[i + 2], s[i + 3])

Round(acc, w) == Mul32(Rotl32(Add32(acc, Mul32(w, P2)), 13), P1)

\* consume the 16-byte stripe of s that starts at (1-based) index i
Stripe(v, s, i) ==
    << Round(v[1], WordAt(s, i)),      Round(v[2], WordAt(s, i + 4)),
       Round(v[3], WordAt(s, i + 8)),  Round(v[4], WordAt(s, i + 12)) >>

\* consume stripes number k .. n-1 (0-based) of s
RECURSIVE Stripes(_, _, _, _)
Stripes(v, s, k, n) ==
    IF k >= n THEN v ELSE Stripes(Stripe(v, s, 16 * k + 1), s, k + 1, n)

Converge(v) ==
    Add32(Add32(Rotl32(v[1], 1), Rotl32(v[2], 7)),
          Add32(Rotl32(v[3], 12), Rotl32(v[4], 18)))

\* the tail: 4-byte words, then single bytes, of s from index i on
RECURSIVE TailMix(_, _, _)
TailMix(h, s, i) ==
    IF i + 3 <= Len(s)
    THEN TailMix(Mul32(Rotl32(Add32(h, Mul32(WordAt(s, i), P3)), 17), P4), s, i + 4)
    ELSE IF i <= Len(s)
    THEN TailMix(Mul32(Rotl32(Add32(h, Mul32(FromNat(s[i]), P5)), 11), P1), s, i + 1)
    ELSE h

Avalanche(h) ==
    LET a == Mul32(Xor32(h, Shr32(h, 15)), P2)
        b == Mul32(Xor32(a, Shr32(a, 13)), P3)
    IN  Xor32(b, Shr32(b, 16))

\* One-shot XXH32, seed 0.  Len(s) < 2^31.
XXH32(s) ==
    LET n  == Len(s)
        ns == n \div 16
        h0 == IF n >= 16 THEN Converge(Stripes(InitLanes, s, 0, ns)) ELSE P5
        h1 == Add32(h0, FromNat(n))
    IN  Avalanche(TailMix(h1, s, 16 * ns + 1))

\* ---------------------------------------------------------------------------
\* Streaming machine (reference XXH32_update / XXH32_digest)
StReset == [v |-> InitLanes, total |-> Zero64, buf |-> <<>>]

StWrite(st, chunk) ==
    LET n   == Len(chunk)
        m   == Len(st.buf)
        tot == Add64(st.total, n)
    IN  IF m + n < 16
        THEN [st EXCEPT !.total = tot, !.buf = st.buf \o chunk]
        ELSE LET fill  == IF m > 0 THEN 16 - m ELSE 0
                 v1    == IF m > 0
                          THEN Stripe(st.v, st.buf \o SubSeq(chunk, 1, fill), 1)
                          ELSE st.v
                 rest  == SubSeq(chunk, fill + 1, n)
                 ns    == Len(rest) \div 16
             IN  [v |-> Stripes(v1, rest, 0, ns), total |-> tot,
                  buf |-> SubSeq(rest, 16 * ns + 1, Len(rest))]

\* digest from explicit state components (used for state-injection records)
SumOf(v, total, buf) ==
    LET h0 == IF Ge16_64(total) THEN Converge(v) ELSE P5
    IN  Avalanche(TailMix(Add32(h0, Low32Of64(total)), buf, 1))

StSum(st) == SumOf(st.v, st.total, st.buf)
=============================================================================
