INIT Init
NEXT Next
CONSTANTS
  W = 8
  MaxPos = 60
INVARIANTS
  InWindowExact
  AlwaysBehind
  StaleAliases
  DistanceWOccurs
CHECK_DEADLOCK FALSE
