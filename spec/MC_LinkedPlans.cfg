SPECIFICATION Spec
CONSTANTS
  W = 65536
  Sizes <- PlanSizes
  MaxBlocks = 3
INVARIANTS
  WindowSuffices
  TrimInBounds
  DeliveredIsPrefix
  Emit
CHECK_DEADLOCK FALSE
