------------------------------ MODULE MC_Reader ------------------------------
(* Every Reader call sequence up to MaxCalls calls on a source holding one     *)
(* valid frame of Total content bytes: exported as lifecycle test cases (C17). *)
EXTENDS Reader, TLC, Json

CONSTANTS Total, BufSizes, MaxCalls

VARIABLES calls

MCInit == InitWith(Total) /\ calls = <<>>

Step(op, n, act) == act /\ calls' = Append(calls, [op |-> op, sz |-> n])

MCNext ==
    /\ Len(calls) < MaxCalls
    /\ \/ \E n \in BufSizes : Step("read", n, Read(n) \/ ReadAtEnd \/ InError)
       \/ Step("writeto", 0, WriteTo \/ WriteToLate \/ WriteToAtEnd \/ InError)
       \/ Step("size", 0, UNCHANGED rvars)
       \/ Step("apply", 0, ApplyEarly \/ ApplyLate \/ InError)
       \/ Step("reset", 0, Reset(Total))

MCSpec == MCInit /\ [][MCNext]_<<rvars, calls>>

Emit == Len(calls) = MaxCalls => PrintT(ToJson([kind |-> "reader_history", calls |-> calls]))
=============================================================================
