--------------------------- MODULE MC_LinkedPlans ---------------------------
(***************************************************************************)
(* C16: frames with dependent (linked) blocks.  A plan is a sequence of     *)
(* blocks, each with a decoded size class and a kind (stored raw, literals  *)
(* only, or a match whose source is 1 byte back / as far back as the format *)
(* allows / at the start of the previous block / straddling the block       *)
(* boundary).  TLC enumerates all plans up to MaxBlocks blocks, checks on    *)
(* each prefix that the Reader's window (Reader!BlockDone, real constants)   *)
(* still holds min(65536, bytes decoded) bytes - i.e. that every offset a    *)
(* valid frame may use is resolvable - and exports the plans for the         *)
(* independent encoder.                                                      *)
(***************************************************************************)
EXTENDS Reader, TLC, Json

CONSTANTS Sizes, MaxBlocks

VARIABLES plan, decoded

Kinds == {"raw", "lits", "m1", "mfar", "mprev", "mstraddle"}

Init == InitWith(0) /\ plan = <<>> /\ decoded = 0

Next ==
    /\ Len(plan) < MaxBlocks
    /\ \E sz \in Sizes, k \in Kinds :
          /\ BlockDone(sz)
          /\ decoded' = decoded + sz
          /\ plan' = Append(plan, [size |-> sz, kind |-> k])

Spec == Init /\ [][Next]_<<rvars, plan, decoded>>

WindowSuffices == window >= Min(W, decoded)
TrimInBounds == \A b \in Sizes : (window + b > 2 * W) => Max(W - b, 0) <= window

Emit == Len(plan) = MaxBlocks => PrintT(ToJson([kind |-> "linked_plan", blocks |-> plan]))

PlanSizes == {0, 1, 5, 4096, 65535, 65536, 65537, 200000, 1048576, 4194304}
=============================================================================
