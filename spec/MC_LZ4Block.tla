----------------------------- MODULE MC_LZ4Block -----------------------------
(***************************************************************************)
(* The block grammar as a state machine: a block is built sequence by      *)
(* sequence (AddSeq ... Finish) next to the content it is meant to denote  *)
(* (abstract LZ77 semantics).  TLC explores every construction within the  *)
(* bounds and checks that the byte-level definitions of LZ4Block agree     *)
(* with it: Decode o Serialize = content, ParseSeqs o Serialize = the      *)
(* construction history, one byte less of destination = overflow, every    *)
(* strict prefix = truncated / other / a shorter valid block, a block cut  *)
(* after a match = other, and the per-sequence equalities used by the      *)
(* field-level checks (lemma DecodeBySeqs) hold exactly for the content.   *)
(***************************************************************************)
EXTENDS LZ4Block, TLC

CONSTANTS LitLens, MatchLens, MaxSeqs, Dicts

VARIABLES blk, content, hist, done, dict

mcvars == <<blk, content, hist, done, dict>>

\* literal bytes are a function of their position in the content: keeps the state space
\* to the grammar, while making every literal run distinguishable
LitAt(p) == (p * 37 + 5) % 251
Lits(n) == [i \in 1 .. n |-> LitAt(Len(content) + i)]

Init == /\ blk = <<>> /\ content = <<>> /\ hist = <<>> /\ done = FALSE
        /\ dict \in Dicts

Offsets(avail) == {o \in {1, 2, 3, avail - 1, avail} : o >= 1 /\ o <= avail}

AddSeq(n, off, m) ==
    /\ ~done /\ Len(hist) < MaxSeqs
    /\ LET lits == Lits(n)
           c1 == content \o lits
       IN  /\ off <= Len(c1) + DLen(dict)
           /\ blk' = blk \o SerSeq(lits, off, m)
           /\ content' = c1 \o MatchBytes(dict, c1, off, m)
    /\ hist' = Append(hist, <<n, off, m>>)
    /\ UNCHANGED <<done, dict>>

Finish(n) ==
    /\ ~done
    /\ blk' = blk \o SerLast(Lits(n))
    /\ content' = content \o Lits(n)
    /\ hist' = Append(hist, <<n, 0, 0>>)
    /\ done' = TRUE
    /\ UNCHANGED dict

Next ==
    \/ \E n \in LitLens, m \in MatchLens :
          \E off \in Offsets(Len(content) + n + DLen(dict)) : AddSeq(n, off, m)
    \/ \E n \in LitLens : Finish(n)

Spec == Init /\ [][Next]_mcvars

\* ---- properties of the definitions
DecodeInvertsSerialize ==
    done => LET r == Decode(blk, dict, Len(content))
            IN  r.kind = "ok" /\ r.out = content /\ r.seqs = hist

OneByteShortOverflows ==
    (done /\ Len(content) > 0) => Decode(blk, dict, Len(content) - 1).kind = "overflow"

CutAfterMatchIsOther ==
    (~done /\ Len(hist) > 0) => Decode(blk, dict, Len(content)).kind = "other"

IsPrefix(a, b) == Len(a) <= Len(b) /\ SubSeq(b, 1, Len(a)) = a

PrefixesNeverDecodeWrong ==
    (done /\ Len(blk) <= 48) =>
        \A c \in 1 .. Len(blk) - 1 :
            LET r == Decode(SubSeq(blk, 1, c), dict, Len(content))
            IN  /\ r.kind \in {"truncated", "other", "ok"}
                /\ IsPrefix(r.out, content)

\* lemma DecodeBySeqs: the triples explain the content by per-sequence equalities
RECURSIVE Explains(_, _, _, _)
Explains(seqs, k, p, c) ==       \* p = 0-based position in c where sequence k starts
    IF k > Len(seqs) THEN p = Len(c)
    ELSE LET lit == seqs[k][1]  off == seqs[k][2]  m == seqs[k][3]
             q == p + lit          \* match starts here
         IN  /\ q + m <= Len(c)
             /\ (m > 0 => \A j \in 1 .. m :
                    c[q + j] = HistAt(dict, c, DLen(dict) + q + j - off))
             /\ Explains(seqs, k + 1, q + m, c)

DecodeBySeqs == done => Explains(hist, 1, 0, content)

MCDicts == {NoDict, SeqDict(<<201, 202, 203>>), PatDict(5, 3, 7)}

BoundHolds == done => Len(blk) <= CompressBound(Len(content)) + 3 * Len(hist)
=============================================================================
