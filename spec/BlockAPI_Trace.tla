---------------------------- MODULE BlockAPI_Trace ----------------------------
(***************************************************************************)
(* Trace validation of recorded block-compression calls against BlockAPI   *)
(* (history / determinism) and LZ4Block (what a block means).              *)
(*                                                                         *)
(* Events:                                                                 *)
(*   newcase                    a fresh set of compressor objects          *)
(*   frame     key outid ok     one whole frame written by a Writer (C14)  *)
(*   compress  kind obj depth srcLen dstLen bound realBound n err panicked  *)
(*             canary                                                      *)
(*             srcok srcid outid dec{n,err,same}                           *)
(*      byte level (big = FALSE):  src, block        - TLC decodes         *)
(*      field level (big = TRUE):  seqs, parse, total, litsok, matchesok   *)
(*                                 - TLC checks the triples, the harness   *)
(*                                 evaluated the per-sequence equalities   *)
(*                                 on the source (lemma DecodeBySeqs)      *)
(* Prop selects the per-call obligation; the BlockAPI!Call action (memo    *)
(* consistency = determinism) is part of every step.                       *)
(***************************************************************************)
EXTENDS BlockAPI, LZ4Block, Json

CONSTANTS TraceFile, Prop

Trace == ndJsonDeserialize(TraceFile)

VARIABLE l

\* the block is a complete, correct encoding of the whole source
Complete(r) ==
    IF r.big
    THEN r.parse = "ok" /\ r.total = r.srcLen /\ r.litsok /\ r.matchesok /\ r.dec.same
    ELSE LET d == Decode(r.block, NoDict, r.srcLen)
         IN  d.kind = "ok" /\ d.out = r.src /\ r.dec.same

Strict(r) == IF r.big THEN StrictValidP(r.seqs, r.srcLen)
             ELSE StrictValid(Decode(r.block, NoDict, r.srcLen).seqs, r.srcLen)

Succeeded(r) == r.n > 0 /\ ~r.err /\ r.panicked = ""

\* bound = LZ4Block!CompressBound(srcLen); realBound = what the code's CompressBlockBound returned for srcLen:
\* the promise is about the code's own bound, whatever its formula
C01(r) == r.dstLen >= r.bound \/ r.dstLen >= r.realBound => Succeeded(r) /\ Complete(r)

C10(r) == Succeeded(r) => Complete(r) /\ Strict(r)

C11(r) ==
    /\ r.panicked = "" /\ r.canary /\ r.srcok
    /\ r.n >= 0 /\ r.n <= r.dstLen
    /\ (r.dstLen >= r.bound \/ r.dstLen >= r.realBound => r.n > 0 /\ ~r.err)
    /\ (r.n = 0 => r.dstLen < r.bound /\ r.dstLen < r.realBound)
    /\ (r.n > 0 => Complete(r))

Obligation(r) ==
    CASE Prop = "C01" -> C01(r)
      [] Prop = "C10" -> C10(r)
      [] Prop = "C11" -> C11(r)
      [] Prop = "C14" -> TRUE

TraceInit == Init /\ l = 1

IsEvent(e) == l <= Len(Trace) /\ Trace[l].ev = e /\ l' = l + 1

TrNewCase ==
    /\ IsEvent("newcase")
    /\ uses' = [o \in {} |-> 0] /\ memo' = {} /\ ncalls' = 0 /\ hist' = <<>>

\* objects appear dynamically in a trace: uses is extended on first use
TrCompress ==
    /\ IsEvent("compress")
    /\ LET r == Trace[l]
           o == <<r.kind, r.obj>>
           k == <<r.srcid, r.kind, r.depth, r.dstLen>>
       IN  /\ Lookup(k) \subseteq {r.outid}                      \* BlockAPI!Call, C14
           /\ memo' = memo \cup {<<k, r.outid>>}
           /\ uses' = [x \in DOMAIN uses \cup {o} |-> IF x \in DOMAIN uses THEN uses[x] + (IF x = o THEN 1 ELSE 0) ELSE 1]
           /\ ncalls' = ncalls + 1
           /\ hist' = <<>>
           /\ Obligation(r)

\* frame level (C14): a whole frame emitted for (input, options); the key is everything the bytes may depend on,
\* NOT the concurrency level, the schedule or the partition of the input into Write calls
TrFrame ==
    /\ IsEvent("frame")
    /\ LET r == Trace[l]
           k == <<r.key, "frame", 0, 0>>
       IN  /\ Lookup(k) \subseteq {r.outid}
           /\ memo' = memo \cup {<<k, r.outid>>}
           /\ r.ok                                  \* the run itself succeeded (valid frame decoding to the input)
           /\ UNCHANGED <<uses, ncalls, hist>>

TraceNext == TrNewCase \/ TrCompress \/ TrFrame

TraceSpec == TraceInit /\ [][TraceNext]_<<bvars, l>>

TraceAccepted == TLCGet("stats").diameter = Len(Trace) + 1

TrObjects == {}
=============================================================================
