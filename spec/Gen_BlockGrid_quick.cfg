SPECIFICATION Spec
CONSTANTS
  Lens <- QLens
  Periods = {1, 2, 3, 4, 5, 7, 8}
  Kinds <- GKinds
  DstStep = 3
INVARIANT Emit
CHECK_DEADLOCK FALSE
