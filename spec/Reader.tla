------------------------------- MODULE Reader -------------------------------
(***************************************************************************)
(* The frame Reader as a state machine over lengths, for a source holding  *)
(* one valid frame whose content has `total' bytes, possibly followed by   *)
(* other bytes.                                                            *)
(*                                                                         *)
(*   rs         lifecycle: "new" "read" "closed" "error"                   *)
(*   delivered  bytes handed to the caller so far (always a prefix)        *)
(*   window     bytes of history kept for dependent blocks (dictLen)       *)
(*                                                                         *)
(* Read(sz) fills the caller's buffer completely unless the stream ends    *)
(* first: it returns min(sz, total - delivered) bytes, and io.EOF exactly  *)
(* when it ran into the end during this call; from then on (closed) every  *)
(* Read returns (0, io.EOF) and the source is not touched.  WriteTo drains *)
(* the rest and closes; it is refused after a partial Read.                *)
(*                                                                         *)
(* The window part models the trim rule of reader.go for frames with       *)
(* dependent blocks: after a block of b bytes, if window + b > 2W the old  *)
(* window is cut to max(W - b, 0) bytes before b is appended.  C16 needs   *)
(* window >= min(W, delivered) so that every offset <= 65535 is resolvable.*)
(***************************************************************************)
EXTENDS Integers, Sequences

CONSTANTS W          \* window size (65536 in the implementation)

VARIABLES rs, delivered, total, window

rvars == <<rs, delivered, total, window>>

Min(a, b) == IF a < b THEN a ELSE b
Max(a, b) == IF a > b THEN a ELSE b

InitWith(t) == rs = "new" /\ delivered = 0 /\ total = t /\ window = 0

\* ---- calls; each yields (count, err) as the value of RetOf / ErrOf below
ReadRet(sz) == Min(sz, total - delivered)
ReadHitsEnd(sz) == sz > total - delivered

Read(sz) ==
    /\ rs \in {"new", "read"}
    /\ delivered' = delivered + ReadRet(sz)
    /\ rs' = IF ReadHitsEnd(sz) THEN "closed" ELSE "read"
    /\ UNCHANGED <<total, window>>

ReadAtEnd == rs = "closed" /\ UNCHANGED rvars

WriteTo ==
    /\ rs = "new"
    /\ delivered' = total
    /\ rs' = "closed"
    /\ UNCHANGED <<total, window>>

WriteToLate == rs = "read" /\ rs' = "error" /\ UNCHANGED <<delivered, total, window>>
WriteToAtEnd == rs = "closed" /\ UNCHANGED rvars

Fails == rs \in {"new", "read"} /\ rs' = "error" /\ UNCHANGED <<delivered, total, window>>
InError == rs = "error" /\ UNCHANGED rvars

Reset(t) == rs' = "new" /\ delivered' = 0 /\ total' = t /\ window' = 0

\* Apply is accepted only before the first read; later it fails and leaves the Reader in error
ApplyEarly == rs = "new" /\ UNCHANGED rvars
ApplyLate == rs \in {"read", "closed"} /\ rs' = "error" /\ UNCHANGED <<delivered, total, window>>

\* Size() is the declared content size once the header has been read, 0 before (and in error)
SizeKnown == rs \in {"read", "closed"}

\* ---- the dependent-block window (reader.go: read) -------------------------
\* one block of b bytes has been decoded
Trim(win, b) == IF win + b > 2 * W THEN Max(W - b, 0) ELSE win
BlockDone(b) ==
    /\ window' = Trim(window, b) + b
    /\ UNCHANGED <<rs, delivered, total>>

DeliveredIsPrefix == delivered >= 0 /\ delivered <= total
=============================================================================
