----------------------------- MODULE PipelineWL -----------------------------
(***************************************************************************)
(* Several lives of one concurrent Writer: PipelineW plus                  *)
(*   PEarlyClose  Close / Reset before all blocks were submitted           *)
(*   PReopen      the next life: a new orderer on a new queue, while       *)
(*                workers of the earlier life may still be finishing       *)
(* (writer.go: Close, Reset; frame.go: Reset, CloseW, AbortW; block.go:    *)
(* Blocks.close / initW).  Blocks keep their global numbers across lives;  *)
(* the sink of the model is the concatenation of what every life wrote.    *)
(* The defects D10 (Close then Reset hangs), D22 (Close in the error state *)
(* left the orderer running) and D23 (Reset cleared the frame before       *)
(* waiting) were deviations from this model: Blocks.close is the only way  *)
(* out of a life and it returns only when the orderer has exited.          *)
(***************************************************************************)
EXTENDS PipelineW

CONSTANT MaxLives

VARIABLES life,       \* number of the current life
          lifeStart   \* first block of the current life

lvars == <<vars, life, lifeStart>>

InitL == Init /\ life = 1 /\ lifeStart = 1

LStep == Next /\ UNCHANGED <<life, lifeStart>>
LEarlyClose == life < MaxLives /\ PEarlyClose /\ UNCHANGED <<life, lifeStart>>
LReopen == life < MaxLives /\ PReopen /\ life' = life + 1 /\ lifeStart' = pnext

NextL == LStep \/ LEarlyClose \/ LReopen

AllDoneL == AllDone /\ (life = MaxLives \/ pnext > N)
TerminatingL == AllDone /\ UNCHANGED lvars

SpecL == InitL /\ [][NextL \/ TerminatingL]_lvars /\ WF_lvars(NextL)

\* when Close / Reset has returned: the orderer has exited, every block submitted in this life is in the sink (in
\* order, after everything earlier lives wrote) unless this life's sink failed
ClosedMeansFlushedL ==
    ppc = "done" =>
        /\ opc = "done"
        /\ (~err => \A b \in lifeStart .. pnext - 1 : \E k \in 1 .. Len(sink) : sink[k] = b)
        /\ \A k \in 1 .. Len(sink) : sink[k] < pnext

\* the new orderer never touches a channel of an earlier life
LivesDoNotMix == (opc # "done" /\ ocur \in Blocks) => ocur >= lifeStart

WorkersNeverBlockedAfterCloseL ==
    ppc = "done" => \A i \in Blocks : i < pnext => wpc[i] \in {"offered", "waitclose", "release", "done"} /\ chan[i] = "closed"

EventuallyDoneL == []<>(ppc = "done" /\ opc = "done")
=============================================================================
