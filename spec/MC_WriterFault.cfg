SPECIFICATION FaultSpec
CONSTANTS
  B = 4
  Legacy = FALSE
  WriteSizes = {0, 1, 4, 5, 9}
  MaxCalls = 4
INVARIANTS
  Conservation
  ClosedFrameComplete
  BlocksAreFull
  PendingBounded
  AtMostOneHeader
  HandlerAccounting
  FailureIsSticky
CHECK_DEADLOCK FALSE
