------------------------------ MODULE LZ4Frame ------------------------------
(***************************************************************************)
(* The LZ4 frame format (lz4_Frame_format.md) and the legacy frame format  *)
(* as executable definitions: an independent "implementation of the frame  *)
(* specification" that TLC runs on byte strings.                           *)
(*                                                                         *)
(*   Parse(s, strict)  reads skippable frames, then ONE frame, from the    *)
(*                     byte sequence s and returns a record:               *)
(*     status   "ok" or the first reason for rejecting                     *)
(*     content  the decoded bytes delivered before status was decided      *)
(*     consumed number of bytes of s read                                  *)
(*     flg, bd, csize, blocks (stored size / raw flag per block), hascc    *)
(*                                                                         *)
(* strict = TRUE is what a conforming reader of the frame document         *)
(* enforces (version 01, reserved bits zero, no dictionary id): used to    *)
(* judge EMITTED frames (C09, C18, C20).  The content-size field is        *)
(* returned, not compared with the actual size: C09 asks for "the          *)
(* configured content size", which the caller chooses (SizeMatches below   *)
(* is available for callers that configure the true size).  strict = FALSE keeps exactly the header rule of C19 (checksum    *)
(* byte and block-size code, nothing else) and everything else of the      *)
(* format: used to judge what the Reader ACCEPTS (C05, C06, C07), so the   *)
(* check never demands more of the Reader than the properties do.          *)
(*                                                                         *)
(* Rejection reasons:                                                      *)
(*   "bad_magic" "truncated" "bad_hc" "bad_bd" "bad_version" "reserved"    *)
(*   "dictid" "block_too_big" "bad_block_cs" "bad_block" "bad_cc"          *)
(* and "empty" when the input ends before any data frame began.            *)
(***************************************************************************)
EXTENDS LZ4Block, XXH32

FrameMagic  == <<4, 34, 77, 24>>      \* 0x184D2204 little endian
LegacyMagic == <<2, 33, 76, 24>>      \* 0x184C2102
IsSkipMagic(s, i) == s[i] >= 80 /\ s[i] <= 95 /\ s[i + 1] = 42 /\ s[i + 2] = 77 /\ s[i + 3] = 24

Has(s, i, n) == n <= Len(s) - i + 1          \* n bytes available from index i (no overflow for n near 2^31)

\* 31 low bits of a little-endian word, and its top bit
Low31(s, i) == s[i] + 256 * s[i + 1] + 65536 * s[i + 2] + 16777216 * (s[i + 3] % 128)
TopBit(s, i) == s[i + 3] >= 128
WordAt32(s, i) == LE32(s[i], s[i + 1], s[i + 2], s[i + 3])
IsZeroWord(s, i) == s[i] = 0 /\ s[i + 1] = 0 /\ s[i + 2] = 0 /\ s[i + 3] = 0

\* descriptor bits
FlgVersion(f)  == f \div 64
FlgIndep(f)    == (f \div 32) % 2 = 1
FlgBlockCS(f)  == (f \div 16) % 2 = 1
FlgSize(f)     == (f \div 8) % 2 = 1
FlgContentCS(f) == (f \div 4) % 2 = 1
FlgReserved(f) == (f \div 2) % 2 = 1
FlgDictID(f)   == f % 2 = 1
BdCode(b)      == (b \div 16) % 8
BdReserved(b)  == b >= 128 \/ b % 16 # 0

MaxBlockOf(code) == CASE code = 4 -> 65536 [] code = 5 -> 262144 [] code = 6 -> 1048576
                      [] code = 7 -> 4194304 [] OTHER -> 0
LegacyBlock == 8388608

\* header checksum byte: second byte of XXH32 of the descriptor (FLG .. before HC)
HeaderChecksum(desc) == XXH32(desc)[2] \div 256

\* the last 64 KiB of the content as a dictionary (dependent blocks)
Window(content) ==
    IF Len(content) <= 65536 THEN SeqDict(content)
    ELSE SeqDict(SubSeq(content, Len(content) - 65535, Len(content)))

R(status, content, consumed, hdr, blocks) ==
    [status |-> status, content |-> content, consumed |-> consumed,
     flg |-> hdr.flg, bd |-> hdr.bd, csize |-> hdr.csize, blocks |-> blocks,
     legacy |-> hdr.legacy]

\* ---- blocks of a frame in the current format, from index i
RECURSIVE FrameBlocks(_, _, _, _, _, _)
FrameBlocks(s, i, hdr, content, blocks, strict) ==
    IF ~Has(s, i, 4) THEN R("truncated", content, Len(s), hdr, blocks)
    ELSE IF IsZeroWord(s, i)
    THEN \* end mark, then the content checksum if announced
         IF FlgContentCS(hdr.flg)
         THEN IF ~Has(s, i + 4, 4) THEN R("truncated", content, Len(s), hdr, blocks)
              ELSE IF WordAt32(s, i + 4) # XXH32(content) THEN R("bad_cc", content, i + 7, hdr, blocks)
              ELSE R("ok", content, i + 7, hdr, blocks)
         ELSE R("ok", content, i + 3, hdr, blocks)
    ELSE
    LET size == Low31(s, i)
        raw  == TopBit(s, i)
        maxb == MaxBlockOf(BdCode(hdr.bd))
        d0   == i + 4
        cs   == FlgBlockCS(hdr.flg)
    IN  IF size > maxb THEN R("block_too_big", content, i + 3, hdr, blocks)
        ELSE IF ~Has(s, d0, size) THEN R("truncated", content, Len(s), hdr, blocks)
        ELSE IF cs /\ ~Has(s, d0 + size, 4) THEN R("truncated", content, Len(s), hdr, blocks)
        ELSE
        LET data == SubSeq(s, d0, d0 + size - 1)
            next == d0 + size + (IF cs THEN 4 ELSE 0)
            dec  == IF raw THEN Res("ok", data, <<>>)
                    ELSE Decode(data, IF FlgIndep(hdr.flg) THEN NoDict ELSE Window(content), maxb)
            blk  == Append(blocks, [size |-> size, raw |-> raw])
        IN  IF cs /\ WordAt32(s, d0 + size) # XXH32(data)
            THEN R("bad_block_cs", content, next - 1, hdr, blk)
            ELSE IF dec.kind # "ok" THEN R("bad_block", content, next - 1, hdr, blk)
            ELSE FrameBlocks(s, next, hdr, content \o dec.out, blk, strict)

\* ---- blocks of a legacy frame: size (plain 32 bits) + compressed data, until the end
\* of input; a legacy magic in place of a size starts a concatenated frame.
RECURSIVE LegacyBlocks(_, _, _, _, _)
LegacyBlocks(s, i, hdr, content, blocks) ==
    IF i > Len(s) THEN R("ok", content, Len(s), hdr, blocks)
    ELSE IF ~Has(s, i, 4) THEN R("truncated", content, Len(s), hdr, blocks)
    ELSE IF <<s[i], s[i + 1], s[i + 2], s[i + 3]>> = LegacyMagic
    THEN LegacyBlocks(s, i + 4, hdr, content, blocks)
    ELSE IF ~TopBit(s, i) /\ Low31(s, i) = Len(content)
    THEN \* Linux-kernel flavour: the stream ends with the total uncompressed size; this implementation
         \* (documented at LegacyOption) takes a word equal to the bytes decoded so far for that trailer
         R("ok", content, i + 3, hdr, blocks)
    ELSE
    LET size == Low31(s, i)
    IN  IF TopBit(s, i) \/ size > CompressBound(LegacyBlock)
        THEN R("block_too_big", content, i + 3, hdr, blocks)
        ELSE IF ~Has(s, i + 4, size) THEN R("truncated", content, Len(s), hdr, blocks)
        ELSE LET dec == Decode(SubSeq(s, i + 4, i + 3 + size), NoDict, LegacyBlock)
             IN  IF dec.kind # "ok"
                 THEN R("bad_block", content, i + 3 + size, hdr, Append(blocks, [size |-> size, raw |-> FALSE]))
                 ELSE LegacyBlocks(s, i + 4 + size, hdr, content \o dec.out,
                                   Append(blocks, [size |-> size, raw |-> FALSE]))

NoHdr == [flg |-> 0, bd |-> 0, csize |-> <<>>, legacy |-> FALSE]

\* ---- one frame, after any number of skippable frames, from index i
RECURSIVE ParseFrom(_, _, _)
ParseFrom(s, i, strict) ==
    IF i = Len(s) + 1 THEN R("empty", <<>>, Len(s), NoHdr, <<>>)     \* no data frame: nothing, or only skippable frames
    ELSE IF ~Has(s, i, 4) THEN R("truncated", <<>>, Len(s), NoHdr, <<>>)
    ELSE IF IsSkipMagic(s, i)
    THEN IF ~Has(s, i + 4, 4) THEN R("truncated", <<>>, Len(s), NoHdr, <<>>)
         ELSE IF TopBit(s, i + 4) \/ ~Has(s, i + 8, Low31(s, i + 4))
              THEN R("truncated", <<>>, Len(s), NoHdr, <<>>)
         ELSE ParseFrom(s, i + 8 + Low31(s, i + 4), strict)
    ELSE IF <<s[i], s[i + 1], s[i + 2], s[i + 3]>> = LegacyMagic
    THEN LegacyBlocks(s, i + 4, [NoHdr EXCEPT !.legacy = TRUE], <<>>, <<>>)
    ELSE IF <<s[i], s[i + 1], s[i + 2], s[i + 3]>> # FrameMagic
    THEN R("bad_magic", <<>>, i + 3, NoHdr, <<>>)
    ELSE IF ~Has(s, i + 4, 3) THEN R("truncated", <<>>, Len(s), NoHdr, <<>>)
    ELSE
    LET flg == s[i + 4]
        bd  == s[i + 5]
        dl  == IF FlgSize(flg) THEN 10 ELSE 2          \* descriptor length without HC
    IN  IF ~Has(s, i + 4, dl + 1) THEN R("truncated", <<>>, Len(s), NoHdr, <<>>)
        ELSE
        LET desc == SubSeq(s, i + 4, i + 3 + dl)
            hc   == s[i + 4 + dl]
            hdr  == [flg |-> flg, bd |-> bd, legacy |-> FALSE,
                     csize |-> IF FlgSize(flg)
                               THEN << s[i + 6] + 256 * s[i + 7], s[i + 8] + 256 * s[i + 9],
                                       s[i + 10] + 256 * s[i + 11], s[i + 12] + 256 * s[i + 13] >>
                               ELSE <<>>]
            at   == i + 4 + dl           \* index of the HC byte = last header byte
        IN  IF hc # HeaderChecksum(desc) THEN R("bad_hc", <<>>, at, hdr, <<>>)
            ELSE IF MaxBlockOf(BdCode(bd)) = 0 THEN R("bad_bd", <<>>, at, hdr, <<>>)
            ELSE IF strict /\ FlgVersion(flg) # 1 THEN R("bad_version", <<>>, at, hdr, <<>>)
            ELSE IF strict /\ (FlgReserved(flg) \/ BdReserved(bd)) THEN R("reserved", <<>>, at, hdr, <<>>)
            ELSE IF strict /\ FlgDictID(flg) THEN R("dictid", <<>>, at, hdr, <<>>)
            ELSE FrameBlocks(s, at + 1, hdr, <<>>, <<>>, strict)

Parse(s, strict) == ParseFrom(s, 1, strict)
SizeMatches(p) == p.csize = <<>> \/ p.csize = Nat64(Len(p.content))
ParseStrict(s)  == Parse(s, TRUE)
ParseLenient(s) == Parse(s, FALSE)

\* ---------------------------------------------------------------------------
\* Encoding (the independent encoder used for C16 and for MC round trips)
Word32Bytes(n, top) ==      \* n < 2^31, top = the high bit
    <<n % 256, (n \div 256) % 256, (n \div 65536) % 256, (n \div 16777216) + (IF top THEN 128 ELSE 0)>>

Limbs64Bytes(t) == << t[1] % 256, t[1] \div 256, t[2] % 256, t[2] \div 256,
                      t[3] % 256, t[3] \div 256, t[4] % 256, t[4] \div 256 >>

\* opts: [code, indep, bcs, ccs, size (limbs or <<>>)]
Flg(o) == 64 + (IF o.indep THEN 32 ELSE 0) + (IF o.bcs THEN 16 ELSE 0)
          + (IF o.size # <<>> THEN 8 ELSE 0) + (IF o.ccs THEN 4 ELSE 0)

EncodeHeader(o) ==
    LET desc == <<Flg(o), 16 * o.code>> \o (IF o.size # <<>> THEN Limbs64Bytes(o.size) ELSE <<>>)
    IN  FrameMagic \o desc \o <<HeaderChecksum(desc)>>

\* blk: [data (stored bytes), raw]
EncodeBlock(o, blk) ==
    Word32Bytes(Len(blk.data), blk.raw) \o blk.data
    \o (IF o.bcs THEN Bytes32(XXH32(blk.data)) ELSE <<>>)

RECURSIVE EncodeBlocks(_, _, _)
EncodeBlocks(o, blks, k) ==
    IF k > Len(blks) THEN <<>> ELSE EncodeBlock(o, blks[k]) \o EncodeBlocks(o, blks, k + 1)

EncodeFrame(o, blks, content) ==
    EncodeHeader(o) \o EncodeBlocks(o, blks, 1) \o <<0, 0, 0, 0>>
    \o (IF o.ccs THEN Bytes32(XXH32(content)) ELSE <<>>)
=============================================================================
