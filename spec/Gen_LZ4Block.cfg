SPECIFICATION Spec
CONSTANTS
  Tier = "thorough"
  Mode = "all"
INVARIANT Emit
CHECK_DEADLOCK FALSE
