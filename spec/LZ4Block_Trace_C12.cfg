SPECIFICATION TraceSpec
CONSTANTS
  TraceFile = "trace.ndjson"
  Prop = "C12"
POSTCONDITION TraceAccepted
CHECK_DEADLOCK FALSE
