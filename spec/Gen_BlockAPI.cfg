SPECIFICATION Spec
CONSTANTS
  Objects <- GObjects
  Inputs <- GInputs
  Depths <- GDepths
  DstClasses <- GDst
  MaxCalls = 3
INVARIANTS
  Deterministic
  Emit
CHECK_DEADLOCK FALSE
