------------------------------- MODULE Bits32 -------------------------------
(***************************************************************************)
(* 32-bit machine words for TLC.                                           *)
(*                                                                         *)
(* TLC integers are Java ints, so a 32-bit unsigned word does not fit.  A  *)
(* word is the pair <<hi, lo>> of its 16-bit halves ("limbs"); every       *)
(* intermediate value computed below stays under 2^31.  64-bit counters    *)
(* (the XXH32 total length) are sequences of four 16-bit limbs, least      *)
(* significant first.                                                      *)
(***************************************************************************)
EXTENDS Integers, Sequences, Bitwise

M16 == 65536

Word == (0 .. M16 - 1) \X (0 .. M16 - 1)

W(hi, lo) == <<hi, lo>>
Hi(w) == w[1]
Lo(w) == w[2]

Zero32 == <<0, 0>>

\* A small natural (< 2^31) as a word.
FromNat(n) == <<(n \div M16) % M16, n % M16>>

\* Only meaningful when the value is < 2^31.
ToNat(w) == w[1] * M16 + w[2]

IsSmall(w) == w[1] < 32768

Add32(a, b) ==
    LET lo == a[2] + b[2]
        hi == a[1] + b[1] + (lo \div M16)
    IN  <<hi % M16, lo % M16>>

\* Full 32-bit product of two 16-bit numbers, as a word.  y is split into
\* bytes so that no partial product exceeds 2^24.
Mul16(x, y) ==
    LET y0 == y % 256
        y1 == y \div 256
        t0 == x * y0                      \* < 2^24
        t1 == x * y1                      \* < 2^24, weight 2^8
        lo == (t0 % M16) + ((t1 % 256) * 256)
        hi == (t0 \div M16) + (t1 \div 256) + (lo \div M16)
    IN  <<hi % M16, lo % M16>>

\* (x * y) mod 2^16 for 16-bit x, y.
MulLow16(x, y) == Mul16(x, y)[2]

\* (a * b) mod 2^32
Mul32(a, b) ==
    LET p == Mul16(a[2], b[2])
        hi == p[1] + MulLow16(a[1], b[2]) + MulLow16(a[2], b[1])
    IN  <<hi % M16, p[2]>>

Pow2(n) == 2 ^ n

\* rotate left by r, 0 <= r < 32
Rotl32(a, r) ==
    LET b == IF r >= 16 THEN <<a[2], a[1]>> ELSE a
        s == IF r >= 16 THEN r - 16 ELSE r
        p == Pow2(s)
        q == Pow2(16 - s)
    IN  IF s = 0 THEN b
        ELSE <<((b[1] * p) % M16) + (b[2] \div q),
               ((b[2] * p) % M16) + (b[1] \div q)>>

\* logical shift right by r, 0 <= r < 32
Shr32(a, r) ==
    IF r >= 16 THEN <<0, a[1] \div Pow2(r - 16)>>
    ELSE IF r = 0 THEN a
    ELSE <<a[1] \div Pow2(r),
           ((a[1] % Pow2(r)) * Pow2(16 - r)) + (a[2] \div Pow2(r))>>

Xor32(a, b) == <<a[1] ^^ b[1], a[2] ^^ b[2]>>

\* two's complement negation
Neg32(a) == Add32(<<65535 - a[1], 65535 - a[2]>>, <<0, 1>>)

\* little-endian bytes
LE32(b0, b1, b2, b3) == <<b3 * 256 + b2, b1 * 256 + b0>>
Bytes32(w) == <<w[2] % 256, w[2] \div 256, w[1] % 256, w[1] \div 256>>

\* ---- 64-bit counters: <<l0, l1, l2, l3>>, 16-bit limbs, l0 least significant
Zero64 == <<0, 0, 0, 0>>

\* add a natural n < 2^31
Add64(t, n) ==
    LET a0 == t[1] + (n % M16)
        a1 == t[2] + (n \div M16) + (a0 \div M16)
        a2 == t[3] + (a1 \div M16)
        a3 == t[4] + (a2 \div M16)
    IN  <<a0 % M16, a1 % M16, a2 % M16, a3 % M16>>

\* a natural n < 2^31 as a 64-bit counter
Nat64(n) == <<n % M16, (n \div M16) % M16, 0, 0>>

Low32Of64(t) == <<t[2], t[1]>>
\* t >= 16 ?
Ge16_64(t) == t[2] > 0 \/ t[3] > 0 \/ t[4] > 0 \/ t[1] >= 16
IsZero64(t) == t = Zero64
=============================================================================
