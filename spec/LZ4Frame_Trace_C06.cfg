SPECIFICATION TraceSpec
CONSTANTS
  TraceFile = "trace.ndjson"
  Prop = "C06"
POSTCONDITION TraceAccepted
CHECK_DEADLOCK FALSE
