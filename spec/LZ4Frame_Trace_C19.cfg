SPECIFICATION TraceSpec
CONSTANTS
  TraceFile = "trace.ndjson"
  Prop = "C19"
POSTCONDITION TraceAccepted
CHECK_DEADLOCK FALSE
