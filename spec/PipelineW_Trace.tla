--------------------------- MODULE PipelineW_Trace ---------------------------
(***************************************************************************)
(* Trace validation of the hook events recorded from a concurrent Writer   *)
(* (Write* [Flush*] Close, and several such lives separated by Reset:      *)
(* PipelineW!PEarlyClose / PReopen, model-checked in PipelineWL) against   *)
(* PipelineW.                                                              *)
(*                                                                         *)
(* Hooks fire BEFORE every channel send / close and AFTER every receive,   *)
(* under one global mutex with a sequence number, so for every channel     *)
(* operation the sender's event precedes the receiver's.  What cannot be   *)
(* ordered this way is not logged and is folded into the next logged step  *)
(* of the same process: the completion of a rendez-vous send (WOffered),   *)
(* the start of a worker (PSpawn, WCompress).  The queue is unbounded here *)
(* (a pre-send event may be logged while the real send still waits for     *)
(* room); its capacity is covered by the model-checked configurations.     *)
(*                                                                         *)
(* Events: ev site ch [blk kind]                                           *)
(*   p.queue w.offer o.dequeue o.take o.write o.close w.closed w.released  *)
(*   p.closeq p.closesend p.closed ; pool.put annotated with the block     *)
(*   whose source buffer (kind "data") or compressed buffer (kind "block") *)
(*   it returns; pend carries the sensor readings of the run.              *)
(***************************************************************************)
EXTENDS PipelineW, TLC, Json

CONSTANTS TraceFile

Trace == ndJsonDeserialize(TraceFile)

VARIABLE l

tvars == <<vars, l>>

TraceInit == Init /\ l = 1

Ev(e) == l <= Len(Trace) /\ Trace[l].ev = e /\ l' = l + 1
Ch == Trace[l].ch

TrReset ==      \* a new run
    /\ Ev("pnew")
    /\ ppc' = "submit" /\ pnext' = 1 /\ q' = <<>>
    /\ wpc' = [i \in Blocks |-> "idle"] /\ opc' = "dequeue" /\ ocur' = 0
    /\ chan' = [i \in 1 .. Sentinel |-> "empty"] /\ sink' = <<>> /\ err' = FALSE
    /\ dataOwner' = [i \in Blocks |-> "producer"] /\ blockOwner' = [i \in Blocks |-> "none"] /\ handled' = {}

\* p.queue: PSubmit without the capacity guard, then PSpawn
TrPQueue ==
    /\ Ev("p.queue") /\ ppc = "submit" /\ Ch = pnext /\ Ch \in Blocks
    /\ q' = Append(q, Ch)
    /\ wpc' = [wpc EXCEPT ![Ch] = "compress"]
    /\ dataOwner' = [dataOwner EXCEPT ![Ch] = "worker"]
    /\ pnext' = pnext + 1
    /\ UNCHANGED <<ppc, opc, ocur, chan, sink, err, blockOwner, handled>>

\* w.offer: WCompress, then WOffer
TrWOffer ==
    /\ Ev("w.offer") /\ Ch \in Blocks /\ wpc[Ch] = "compress" /\ chan[Ch] = "empty"
    /\ blockOwner' = [blockOwner EXCEPT ![Ch] = "worker"]
    /\ chan' = [chan EXCEPT ![Ch] = "full"]
    /\ wpc' = [wpc EXCEPT ![Ch] = "offered"]
    /\ UNCHANGED <<ppc, pnext, q, opc, ocur, sink, err, dataOwner, handled>>

TrODequeue == Ev("o.dequeue") /\ ODequeue /\ ocur' = Ch          \* FIFO: the channel taken is the oldest queued
TrOTake == Ev("o.take") /\ ocur = Ch /\ OTake

\* o.write is logged only when no earlier write failed; whether this one fails is not logged
TrOWrite ==
    /\ Ev("o.write") /\ ocur = Ch /\ opc = "write" /\ ~err
    /\ \/ sink' = Append(sink, ocur) /\ UNCHANGED err
       \/ err' = TRUE /\ UNCHANGED sink
    /\ opc' = "close"
    /\ UNCHANGED <<ppc, pnext, q, wpc, ocur, chan, dataOwner, blockOwner, handled>>

\* o.close: OClose; after a failed write the orderer skips the write of later blocks
TrOClose ==
    /\ Ev("o.close") /\ ocur = Ch
    /\ opc \in {"close"} \cup (IF err THEN {"write"} ELSE {})
    /\ chan' = [chan EXCEPT ![ocur] = "closed"]
    /\ opc' = IF ocur = Sentinel THEN "done" ELSE "dequeue"
    /\ UNCHANGED <<ppc, pnext, q, wpc, ocur, sink, err, dataOwner, blockOwner, handled>>

\* w.closed: WOffered (unlogged) then WClosed
TrWClosed ==
    /\ Ev("w.closed") /\ Ch \in Blocks /\ wpc[Ch] = "offered" /\ chan[Ch] = "closed"
    /\ handled' = handled \cup {Ch}
    /\ wpc' = [wpc EXCEPT ![Ch] = "release"]
    /\ UNCHANGED <<ppc, pnext, q, opc, ocur, chan, sink, err, dataOwner, blockOwner>>

\* a buffer of block blk goes back to the pool: only after the orderer is done with the block
TrPoolPut ==
    /\ Ev("pool.put")
    /\ LET b == Trace[l].blk
       IN  IF b = 0 THEN UNCHANGED vars
           ELSE /\ chan[b] = "closed"                            \* C08: not while it can still be read
                /\ IF Trace[l].kind = "data"
                   THEN dataOwner' = [dataOwner EXCEPT ![b] = "pool"] /\ UNCHANGED blockOwner
                   ELSE blockOwner' = [blockOwner EXCEPT ![b] = "pool"] /\ UNCHANGED dataOwner
                /\ UNCHANGED <<ppc, pnext, q, wpc, opc, ocur, chan, sink, err, handled>>

TrWReleased ==
    /\ Ev("w.released") /\ Ch \in Blocks /\ wpc[Ch] = "release"
    /\ wpc' = [wpc EXCEPT ![Ch] = "done"]
    /\ dataOwner' = [dataOwner EXCEPT ![Ch] = "pool"]
    /\ blockOwner' = [blockOwner EXCEPT ![Ch] = "pool"]
    /\ UNCHANGED <<ppc, pnext, q, opc, ocur, chan, sink, err, handled>>

TrPCloseQ ==
    /\ Ev("p.closeq") /\ ppc = "submit" /\ Ch = Sentinel
    /\ q' = Append(q, Sentinel) /\ ppc' = "closesend"
    /\ UNCHANGED <<pnext, wpc, opc, ocur, chan, sink, err, dataOwner, blockOwner, handled>>

\* preopen: the next life of the same Writer (inserted by the check before the first producer event after p.closed)
TrReopen == Ev("preopen") /\ PReopen

TrPCloseSend == Ev("p.closesend") /\ PCloseSend
TrPClosed == Ev("p.closed") /\ PCloseWait

\* end of the run: sensors and result
TrEnd ==
    /\ Ev("pend") /\ UNCHANGED vars
    /\ LET r == Trace[l]
       IN  /\ ~r.hung /\ r.panicked = "" /\ r.race = ""
           /\ r.poison = <<>>                                   \* no buffer written after Put
           /\ r.leaked = 0                                      \* no library goroutine left after Close
           /\ ppc = "done" /\ opc = "done"
           \* several lives: the sink holds abandoned and complete frames one after the other, `same' is about the last one
           /\ (~r.injected => (r.lives \/ r.status = "ok") /\ r.same /\ ~err /\ Len(sink) = pnext - 1)

\* runs whose events are not replayed on the model (the pipeline never started, hangs): sensors only
TrSens ==
    /\ Ev("psens") /\ UNCHANGED vars
    /\ LET r == Trace[l]
       IN  ~r.hung /\ r.panicked = "" /\ r.race = "" /\ r.poison = <<>> /\ r.leaked = 0 /\ r.good

TraceNext ==
    \/ TrSens
    \/ TrReset \/ TrPQueue \/ TrWOffer \/ TrODequeue \/ TrOTake \/ TrOWrite \/ TrOClose \/ TrWClosed
    \/ TrPoolPut \/ TrWReleased \/ TrPCloseQ \/ TrReopen \/ TrPCloseSend \/ TrPClosed \/ TrEnd

TraceSpec == TraceInit /\ [][TraceNext]_tvars
TraceAccepted == TLCGet("stats").diameter = Len(Trace) + 1
=============================================================================
