SPECIFICATION TraceSpec
CONSTANTS
  TraceFile = "trace.ndjson"
  Prop = "C05"
POSTCONDITION TraceAccepted
CHECK_DEADLOCK FALSE
