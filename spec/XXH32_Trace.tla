----------------------------- MODULE XXH32_Trace -----------------------------
(***************************************************************************)
(* Trace validation of recorded executions of the implementation's XXH32   *)
(* against XXH32.tla.                                                      *)
(*                                                                         *)
(* Events (one ndjson line each, written by `lz4verif xxh-record`,         *)
(* `xxh-big`, `xxh-refconf`):                                              *)
(*   reset  h                  the object was Reset; digest right after    *)
(*   write  chunk v total buf h  one Write call; the logged state after    *)
(*                             the call and the digest read right after    *)
(*   oneshot data h            the one-shot function on the whole input    *)
(*   final  v total buf h refh refv   a state reached by really writing    *)
(*                             ~2^32 bytes: digest must follow from the    *)
(*                             logged state by the reference rule, and     *)
(*                             state/digest must equal the reference       *)
(*                             stream's (field level)                      *)
(*   ref    data h refh        results of the Go reference functions       *)
(*                             (ref-conformance: TLC recomputes them)      *)
(* The base module's actions are reused; logged fields are bound to the    *)
(* model's variables; the base invariants are evaluated at every step.     *)
(***************************************************************************)
EXTENDS XXH32Machine, TLC, Json

CONSTANT TraceFile

Trace == ndJsonDeserialize(TraceFile)

VARIABLE l

tvars == <<vars, l>>

TraceInit == Init /\ l = 1

IsEvent(e) == l <= Len(Trace) /\ Trace[l].ev = e /\ l' = l + 1

\* the digest taken right after Reset (before any Write) is the digest of the empty input, whatever the object held
TrReset == IsEvent("reset") /\ Reset /\ StSum(st') = Trace[l].h

TrWrite ==
    /\ IsEvent("write")
    /\ WriteChunk(Trace[l].chunk)
    \* bind the logged post-state to the model's
    /\ st'.v = Trace[l].v
    /\ st'.total = Trace[l].total
    /\ st'.buf = Trace[l].buf
    /\ StSum(st') = Trace[l].h

TrOneShot ==
    /\ IsEvent("oneshot")
    /\ XXH32(Trace[l].data) = Trace[l].h
    /\ hist = Trace[l].data          \* the writes really covered this input
    /\ UNCHANGED vars

TrFinal ==
    /\ IsEvent("final")
    /\ SumOf(Trace[l].v, Trace[l].total, Trace[l].buf) = Trace[l].h
    /\ Trace[l].h = Trace[l].refh
    /\ Trace[l].v = Trace[l].refv
    /\ UNCHANGED vars

TrRef ==
    /\ IsEvent("ref")
    /\ XXH32(Trace[l].data) = Trace[l].h
    /\ Trace[l].refh = Trace[l].h
    /\ UNCHANGED vars

\* one ChecksumZero call on 2^32 - 1 .. 2^32 + 16 bytes: the digest is the one of the stream machine fed the same bytes
\* (whose state and digest the neighbouring "final" events bind to the specification)
TrBigOne ==
    /\ IsEvent("bigone")
    /\ Trace[l].h = Trace[l].refh
    /\ UNCHANGED vars

TraceNext == TrReset \/ TrWrite \/ TrOneShot \/ TrFinal \/ TrRef \/ TrBigOne

TraceSpec == TraceInit /\ [][TraceNext]_tvars

TraceAccepted == TLCGet("stats").diameter = Len(Trace) + 1

\* dummy values for the base module's exploration constants
TrWriteLens == <<>>
TrMaxWrites == 0
=============================================================================
