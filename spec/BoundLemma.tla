---------------------------- MODULE BoundLemma ----------------------------
(***************************************************************************)
(* C01: a destination of CompressBound(n) bytes is enough for the worst    *)
(* block any compressor may emit for n source bytes: the literal-only      *)
(* block (one token, the length bytes of n - 15, n literals).              *)
(*                                                                         *)
(* Sufficient: WorstCaseSize(n) <= CompressBound(n) for every n.           *)
(* TLC: every n up to MaxN (MC cfg).  Apalache: every integer n >= 0       *)
(* (Init is the set of naturals; the invariant is checked on Init).        *)
(*                                                                         *)
(* The check evaluates the code's own CompressBlockBound against           *)
(* WorstCaseSize on a grid of n up to 2^30 and turns every n where the     *)
(* code's bound is smaller into an executed case (an incompressible source *)
(* of that length, destination of exactly the code's bound).               *)
(***************************************************************************)
EXTENDS Integers

CONSTANT
    \* @type: Int;
    MaxN

VARIABLE
    \* @type: Int;
    n

\* LZ4Block!SerLast: token, length bytes, literals
\* @type: (Int) => Int;
WorstCaseSize(k) == k + 1 + (IF k >= 15 THEN (k - 15) \div 255 + 1 ELSE 0)

\* @type: (Int) => Int;
Bound(k) == k + (k \div 255) + 16

Init == n \in 0 .. MaxN
Next == UNCHANGED n
CInit == MaxN = 0
IndInit == n \in Nat

Sufficient == WorstCaseSize(n) <= Bound(n)
\* the slack never goes below 14 bytes (what a match-bearing block can waste at most is covered: a match of
\* 4 bytes costs 3, so no sequence list is larger than the literal-only block)
Slack == Bound(n) - WorstCaseSize(n) >= 14
=============================================================================
