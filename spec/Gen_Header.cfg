SPECIFICATION Spec
CONSTANTS
  FlgSet <- AllFlg
  BdStep = 1
  BdOffset = 0
INVARIANT Emit
CHECK_DEADLOCK FALSE
