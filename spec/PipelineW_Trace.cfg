SPECIFICATION TraceSpec
CONSTANTS
  N = 40
  Num = 4
  FailAt = 0
  TraceFile = "trace.ndjson"
INVARIANTS
  Ordered
  NoUseAfterPut
POSTCONDITION TraceAccepted
CHECK_DEADLOCK FALSE
