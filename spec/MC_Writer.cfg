SPECIFICATION MCSpec
CONSTANTS
  B = 4
  Legacy = FALSE
  WriteSizes = {0, 1, 3, 4, 5, 9}
  MaxCalls = 4
INVARIANTS
  Conservation
  ClosedFrameComplete
  BlocksAreFull
  PendingBounded
  AtMostOneHeader
  HandlerAccounting
CHECK_DEADLOCK FALSE
