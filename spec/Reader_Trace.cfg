SPECIFICATION TraceSpec
CONSTANTS
  W = 65536
  TraceFile = "trace.ndjson"
INVARIANT DeliveredIsPrefix
POSTCONDITION TraceAccepted
CHECK_DEADLOCK FALSE
