SPECIFICATION MCSpec
CONSTANTS
  WriteLens <- MCWriteLens
  MaxWrites <- MCMaxWrites
INVARIANTS
  StreamingRefinesOneShot
  BufInvariant
  Emit
CHECK_DEADLOCK FALSE
