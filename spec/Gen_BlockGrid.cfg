SPECIFICATION Spec
CONSTANTS
  Lens <- TLens
  Periods = {1, 2, 3, 4, 5, 6, 7, 8}
  Kinds <- GKinds
  DstStep = 1
INVARIANT Emit
CHECK_DEADLOCK FALSE
