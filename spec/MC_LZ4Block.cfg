SPECIFICATION Spec
CONSTANTS
  LitLens = {0, 1, 14, 15, 16, 270}
  MatchLens = {4, 5, 18, 19, 20, 274}
  MaxSeqs = 2
  Dicts <- MCDicts
INVARIANTS
  DecodeInvertsSerialize
  OneByteShortOverflows
  CutAfterMatchIsOther
  PrefixesNeverDecodeWrong
  DecodeBySeqs
CHECK_DEADLOCK FALSE
