------------------------- MODULE MC_CompressingReader -------------------------
(* Every sequence of Read sizes against small piece layouts: per-call results n <= len(p), progress, *)
(* in-order delivery, io.EOF exactly once everything has been delivered, source error passed through.   *)
EXTENDS CompressingReader, TLC, Json

CONSTANTS ReadSizes, MaxReads, MaxLives

VARIABLES reads, plen, lives

Layouts == { << <<7>>, <<4, 9>>, <<4, 3>>, <<4>> >>,              \* header, two blocks, trailer
             << <<7>>, <<4>> >>,                                  \* empty input
             << <<15>>, <<4, 6, 4>>, <<8>> >>,                    \* size field, block checksum, content checksum
             << <<7>>, <<4, 9>>, <<0 - 1>> >>,                    \* source fails after one block
             << <<7>>, <<0 - 1>> >> }

Init == \E g \in Layouts : InitWith(g) /\ reads = <<>> /\ plen = 0 /\ lives = 1

Next == \/ /\ Len(reads) < MaxReads
           /\ \E p \in ReadSizes :
                 /\ Read(p)
                 /\ plen' = p
                 /\ reads' = Append(reads, p)
           /\ UNCHANGED lives
        \/ /\ lives < MaxLives                 \* Reset at any point of a stream, then a new stream
           /\ \E g \in Layouts : Reset(g)
           /\ reads' = <<>> /\ plen' = 0 /\ lives' = lives + 1

Spec == Init /\ [][Next]_<<cvars, reads, plen, lives>>

AtMostLenP == last.n <= plen \/ reads = <<>>
Progress == (reads # <<>> /\ plen > 0 /\ last.err = "none") => last.n > 0
EOFOnlyWhenDrained == last.err = "eof" => delivered = produced /\ groups = <<>>
ErrorPassedThrough == last.err = "injected" => st = "done"
=============================================================================
