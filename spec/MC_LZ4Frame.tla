----------------------------- MODULE MC_LZ4Frame -----------------------------
(***************************************************************************)
(* A frame builder as a state machine: options are chosen, blocks (stored  *)
(* raw, literal-only compressed, compressed with an in-block match,        *)
(* compressed with a match into the previous block when blocks are linked) *)
(* are appended, the frame is finished.  TLC checks on every finished      *)
(* frame that the independent parser inverts the encoder (strict and       *)
(* lenient), that a declared content size is enforced by the strict        *)
(* parser, and - C06 at design level - that every proper prefix of the     *)
(* frame is "truncated" with a prefix of the content.                      *)
(***************************************************************************)
EXTENDS LZ4Frame, TLC

CONSTANTS MaxBlocks

VARIABLES o, blks, content, done

fvars == <<o, blks, content, done>>

Opts == [code : {4, 7}, indep : BOOLEAN, bcs : BOOLEAN, ccs : BOOLEAN,
         size : {<<>>, Nat64(0), Nat64(5)}]

Init == o \in Opts /\ blks = <<>> /\ content = <<>> /\ done = FALSE

B(p) == (p * 29 + 3) % 251
Fresh(n) == [i \in 1 .. n |-> B(Len(content) + i)]

AddRaw(n) ==
    /\ blks' = Append(blks, [data |-> Fresh(n), raw |-> TRUE])
    /\ content' = content \o Fresh(n)

AddLits(n) ==
    /\ blks' = Append(blks, [data |-> SerLast(Fresh(n)), raw |-> FALSE])
    /\ content' = content \o Fresh(n)

\* 2 literals, then a match of 5 at offset 1 (in-block), then end
AddMatch ==
    LET l == Fresh(2)
        c1 == content \o l
    IN  /\ blks' = Append(blks, [data |-> SerSeq(l, 1, 5) \o <<0>>, raw |-> FALSE])
        /\ content' = c1 \o [k \in 1 .. 5 |-> l[2]]

\* linked blocks only: a match that starts in the previous blocks' content
AddLinked ==
    /\ ~o.indep /\ Len(content) >= 3
    /\ LET off == Len(content)          \* reaches the very first byte of the stream
       IN  /\ blks' = Append(blks, [data |-> SerSeq(<<>>, off, 4) \o <<0>>, raw |-> FALSE])
           /\ content' = content \o MatchBytes(SeqDict(content), <<>>, off, 4)

Next ==
    /\ ~done
    /\ \/ /\ Len(blks) < MaxBlocks
          /\ (\E n \in {0, 1, 5} : AddRaw(n) \/ AddLits(n)) \/ AddMatch \/ AddLinked
          /\ UNCHANGED <<o, done>>
       \/ done' = TRUE /\ UNCHANGED <<o, blks, content>>

Spec == Init /\ [][Next]_fvars

Bytes == EncodeFrame(o, blks, content)

SizeOK == o.size = <<>> \/ o.size = Nat64(Len(content))

ParserInvertsEncoder ==
    done => LET b == Bytes
                s == ParseStrict(b)
                l == ParseLenient(b)
            IN  /\ l.status = "ok" /\ l.content = content /\ l.consumed = Len(b)
                /\ s.status = "ok" /\ SizeMatches(s) = SizeOK
                /\ s.content = content
                /\ Len(l.blocks) = Len(blks)
                /\ \A k \in 1 .. Len(blks) : l.blocks[k].size = Len(blks[k].data) /\ l.blocks[k].raw = blks[k].raw

IsPrefixOf(a, b) == Len(a) <= Len(b) /\ SubSeq(b, 1, Len(a)) = a

PrefixesAreTruncated ==
    done => LET b == Bytes
            IN  \A c \in 1 .. Len(b) - 1 :
                  LET r == ParseLenient(SubSeq(b, 1, c))
                  IN  r.status = "truncated" /\ IsPrefixOf(r.content, content)

TrailingBytesIgnored ==
    done => LET b == Bytes \o <<1, 2, 3>>
            IN  ParseLenient(b).status = "ok" /\ ParseLenient(b).consumed = Len(b) - 3

SkippablePrefix ==
    done => LET b == <<83, 42, 77, 24, 2, 0, 0, 0, 9, 9>> \o Bytes
            IN  ParseLenient(b).status = "ok" /\ ParseLenient(b).content = content
=============================================================================
