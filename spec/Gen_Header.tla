------------------------------ MODULE Gen_Header ------------------------------
(***************************************************************************)
(* C19: the header-checksum table.  For descriptors (FLG, BD) in the       *)
(* configured slice, without a content-size field and with each of five    *)
(* 64-bit sizes, TLC computes the correct checksum byte and whether the    *)
(* block-size code is defined.  The harness then tries all 256 checksum    *)
(* bytes against each row.                                                 *)
(***************************************************************************)
EXTENDS LZ4Frame, TLC, Json

CONSTANTS FlgSet, BdStep, BdOffset      \* BD values: BdOffset, BdOffset+BdStep, ...

VARIABLES phase, c

Sizes == << Nat64(0), Nat64(1), Nat64(123), <<0, 0, 1, 0>>, <<65535, 65535, 65535, 65535>> >>

Init == phase = 0 /\ c = [x |-> 0]

L1 == /\ phase = 0 /\ phase' = 1
      /\ \E f \in FlgSet : c' = [flg |-> f]

L2 == /\ phase = 1 /\ phase' = 2
      /\ \E b \in 0 .. 255 : b % BdStep = BdOffset /\ c' = [flg |-> c.flg, bd |-> b]

Next == L1 \/ L2
Spec == Init /\ [][Next]_<<phase, c>>

\* A header whose FLG has the size bit carries 8 more bytes: one row per size value.
Row(f, b, k) ==
    LET withSize == FlgSize(f)
        desc == <<f, b>> \o (IF withSize THEN Limbs64Bytes(Sizes[k]) ELSE <<>>)
    IN  [flg |-> f, bd |-> b, size |-> IF withSize THEN Sizes[k] ELSE <<>>,
         hc |-> HeaderChecksum(desc), codeok |-> MaxBlockOf(BdCode(b)) # 0]

Emit == phase = 2 =>
    IF FlgSize(c.flg)
    THEN \A k \in 1 .. 5 : PrintT(ToJson(Row(c.flg, c.bd, k)))
    ELSE PrintT(ToJson(Row(c.flg, c.bd, 1)))

AllFlg == 0 .. 255
=============================================================================
