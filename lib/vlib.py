"""Shared machinery of the lz4 TLA+ conformance checks (see DESIGN.md sections 4, 8, 9).

 - run TLC (model checking, case generation, trace validation) in scratch copies of
   /verif/spec, under a timeout, with its own metadir, and parse its statistics;
 - build and run the Go harness against /repo's working tree;
 - the verdict protocol: only a re-executed deviation of the real code is a VIOLATION
   (exit 1); machinery trouble is exit 2; known findings are printed and suppressed;
 - write /verif/evidence/<id>.json from measured values.
"""
import atexit
import concurrent.futures as cf
import hashlib
import json
import os
import re
import shutil
import subprocess
import sys
import tempfile
import time

VERIF = os.path.dirname(os.path.dirname(os.path.abspath(__file__)))
REPO = os.environ.get("VERIF_REPO", "/repo")
SPEC = os.path.join(VERIF, "spec")
BUILD = os.path.join(VERIF, "build")
OUTDIR = os.environ.get("VERIF_OUT", VERIF)     # evidence/ and replays/ go here (seed runs redirect it)
BIN = os.path.join(BUILD, "bin")
JAR = "/opt/veriftools/tla/tla2tools.jar:/opt/veriftools/tla/CommunityModules-deps.jar"
NCPU = os.cpu_count() or 4

GOENV = dict(os.environ, GOFLAGS="-mod=mod", GOPROXY="off", GOSUMDB="off", GOTOOLCHAIN="local",
             CGO_ENABLED=os.environ.get("CGO_ENABLED", "1"))


class MachineryFault(Exception):
    """Something in the checking machinery failed (exit 2, never a violation)."""


def log(*a):
    print(*a, file=sys.stderr, flush=True)


_scratch_root = None


def scratch(name="w"):
    """A fresh directory under a per-process scratch root that is removed at exit."""
    global _scratch_root
    if _scratch_root is None:
        _scratch_root = tempfile.mkdtemp(prefix="lz4verif-")
        if not os.environ.get("VERIF_KEEP"):
            atexit.register(shutil.rmtree, _scratch_root, True)
        else:
            log("scratch kept at", _scratch_root)
    d = tempfile.mkdtemp(prefix=name + "-", dir=_scratch_root)
    return d


# --------------------------------------------------------------------------- TLC

class TLCResult:
    def __init__(self):
        self.rc = None
        self.out = ""
        self.generated = 0
        self.distinct = 0
        self.depth = 0
        self.cases = []          # JSON values printed with PrintT(ToJson(..))
        self.error = None        # first TLC error text, if any
        self.timed_out = False
        self.wall = 0.0
        self.coverage_zero = []

    @property
    def ok(self):
        return self.rc == 0 and self.error is None and not self.timed_out


_RE_STATS = re.compile(r"(\d+) states generated, (\d+) distinct states found")
_RE_DEPTH = re.compile(r"The depth of the complete state graph search is (\d+)")


def run_tlc(module, cfg=None, files=None, workers=1, timeout=600, extra=None, heap="3g",
            want_cases=False, deque=False, cfg_text=None, read_back=None):
    """Run TLC on spec/<module>.tla with spec/<cfg>.cfg in a scratch copy of the spec dir.

    files: {name_in_scratch: source_path} copied next to the modules (trace files).
    """
    d = scratch("tlc")
    for f in os.listdir(SPEC):
        if f.endswith(".tla") or f.endswith(".cfg"):
            shutil.copy(os.path.join(SPEC, f), d)
    for name, src in (files or {}).items():
        dst = os.path.join(d, name)
        try:
            os.link(src, dst)
        except OSError:
            shutil.copy(src, dst)
    cfg = cfg or module
    if cfg_text is not None:
        cfg = cfg + "_gen"
        with open(os.path.join(d, cfg + ".cfg"), "w") as f:
            f.write(cfg_text)
    # java.io.tmpdir inside the scratch copy: TLC and SANY leave temporary directories behind (tlc-*, SANY*), which would
    # otherwise pile up under /tmp
    os.makedirs(os.path.join(d, "jtmp"), exist_ok=True)
    cmd = ["java", "-Xss512m", "-Xmx" + heap, "-XX:+UseParallelGC", "-Djava.io.tmpdir=" + os.path.join(d, "jtmp")]
    if deque:
        cmd.append("-Dtlc2.tool.queue.IStateQueue=StateDeque")
    cmd += ["-cp", JAR, "tlc2.TLC", "-workers", str(workers), "-metadir", os.path.join(d, "meta"),
            "-config", cfg + ".cfg"]
    cmd += (extra or [])
    cmd.append(module + ".tla")
    r = TLCResult()
    t0 = time.time()
    outp = os.path.join(d, "tlc.out")
    with open(outp, "w") as fo:
        try:
            p = subprocess.run(cmd, cwd=d, stdout=fo, stderr=subprocess.STDOUT, timeout=timeout)
            r.rc = p.returncode
        except subprocess.TimeoutExpired:
            r.timed_out = True
            r.rc = -1
    r.wall = time.time() - t0
    other = []
    with open(outp, errors="replace") as fi:
        for line in fi:
            if want_cases and line.startswith('"') and line.rstrip().endswith('"'):
                try:
                    r.cases.append(json.loads(json.loads(line)))
                    continue
                except Exception:
                    pass
            other.append(line)
    r.out = "".join(other[-400:]) if len(other) > 400 else "".join(other)
    m = None
    for m in _RE_STATS.finditer(r.out):
        pass
    if m:
        r.generated, r.distinct = int(m.group(1)), int(m.group(2))
    m = _RE_DEPTH.search(r.out)
    if m:
        r.depth = int(m.group(1))
    em = re.search(r"^Error: (.*(?:\n(?!\d+ states|Finished|The |Progress).*){0,6})", r.out, re.M)
    if em:
        r.error = em.group(1).strip()
    for cm in re.finditer(r"^\s*(line \d+, col \d+ to line \d+, col \d+ of module \w+): 0\s*$", r.out, re.M):
        r.coverage_zero.append(cm.group(1))
    r.files = {}
    for name in (read_back or []):
        try:
            r.files[name] = open(os.path.join(d, name)).read()
        except OSError:
            pass
    shutil.rmtree(d, ignore_errors=True)
    return r


def run_apalache(module, init, inv, length, timeout=300, next_=None, cinit=None):
    """Run `apalache-mc check` on spec/<module>.tla in a scratch directory; returns (ok, text)."""
    d = scratch("apa")
    shutil.copy(os.path.join(SPEC, module + ".tla"), d)
    cmd = ["apalache-mc", "check", "--init=" + init, "--inv=" + inv, "--length=%d" % length] + \
          (["--next=" + next_] if next_ else []) + (["--cinit=" + cinit] if cinit else []) + [module + ".tla"]
    try:
        p = subprocess.run(cmd, cwd=d, stdout=subprocess.PIPE, stderr=subprocess.STDOUT, text=True, timeout=timeout)
    except (subprocess.TimeoutExpired, FileNotFoundError) as e:
        shutil.rmtree(d, ignore_errors=True)
        return None, str(e)
    shutil.rmtree(d, ignore_errors=True)
    return ("EXITCODE: OK" in p.stdout and "no error" in p.stdout), p.stdout[-1500:]


# --------------------------------------------------------------------------- Go harness

_built = {}


def build_harness(noasm=False, race=False):
    """(Re)build the harness from the repository's current working tree; returns the binary path.

    The binary goes to this process's scratch directory, so concurrent checks do not disturb each
    other.  VERIF_REPO (default /repo) may point at a scratch worktree: the harness module is then
    copied and its go.mod `replace` rewritten (used only by bin/seed_run)."""
    tags = "verif" + (",noasm" if noasm else "")
    name = "lz4verif" + ("-noasm" if noasm else "") + ("-race" if race else "")
    if name in _built:
        return _built[name]
    out = os.path.join(scratch("bin"), name)
    hdir = os.path.join(VERIF, "harness")
    if REPO != "/repo":
        h2 = os.path.join(scratch("harness"), "harness")
        shutil.copytree(hdir, h2)
        gm = open(os.path.join(h2, "go.mod")).read().replace("=> /repo", "=> " + REPO)
        open(os.path.join(h2, "go.mod"), "w").write(gm)
        hdir = h2
    try:
        shutil.copy(os.path.join(REPO, "go.sum"), os.path.join(hdir, "go.sum"))
    except OSError:
        pass
    cmd = ["go", "build", "-tags", tags, "-o", out]
    if race:
        cmd.insert(2, "-race")
    cmd.append("./cmd/lz4verif")
    p = subprocess.run(cmd, cwd=hdir, env=dict(GOENV), stdout=subprocess.PIPE, stderr=subprocess.STDOUT, text=True)
    if p.returncode != 0:
        raise MachineryFault("harness build failed (tags %s):\n%s" % (tags, p.stdout))
    _built[name] = out
    return out


def harness(binary, *args, timeout=3600, check=True, env=None):
    """Run a harness sub-command; its last stdout line is a JSON summary."""
    p = subprocess.run([binary] + [str(a) for a in args], stdout=subprocess.PIPE, stderr=subprocess.PIPE,
                       text=True, timeout=timeout, env=dict(GOENV, **(env or {})))
    if p.returncode != 0:
        if check:
            raise MachineryFault("harness %s failed rc=%d: %s" % (args[0], p.returncode, p.stderr[-2000:]))
        return {"rc": p.returncode, "stderr": p.stderr, "stdout": p.stdout}
    lines = [x for x in p.stdout.strip().splitlines() if x.strip()]
    try:
        return json.loads(lines[-1]) if lines else {}
    except Exception:
        raise MachineryFault("harness %s: unparsable summary: %r" % (args[0], lines[-1:]))


def read_ndjson(path):
    out = []
    with open(path) as f:
        for line in f:
            line = line.strip()
            if line:
                out.append(json.loads(line))
    return out


def write_ndjson(path, recs):
    with open(path, "w") as f:
        for r in recs:
            f.write(json.dumps(r, separators=(",", ":")) + "\n")


# --------------------------------------------------------------------------- trace validation

def _split_cases(lines):
    """Group raw ndjson lines by their "case" field (consecutive lines of one case)."""
    groups, cur, cur_id = [], [], object()
    for ln in lines:
        m = re.search(r'"case":(-?\d+|"[^"]*")', ln)
        cid = m.group(1) if m else None
        if cid != cur_id and cur:
            groups.append(cur)
            cur = []
        cur_id = cid
        cur.append(ln)
    if cur:
        groups.append(cur)
    return groups


def validate_trace(ctx, module, trace_path, shards=None, timeout=900, cfg=None, max_reject=8,
                   deque=False, per_shard_min=1, cfg_text=None):
    """Validate a recorded trace with TLC, sharded at case boundaries.

    Returns (accepted_cases, rejected) where rejected is a list of dicts
    {"case_lines": [...], "line": first unconsumed record, "tlc": error text}.
    A rejected case is cut out and the remainder of its shard is validated again, so one
    rejection does not hide the rest of the trace.
    """
    with open(trace_path) as f:
        lines = [x for x in f.read().splitlines() if x.strip()]
    groups = _split_cases(lines)
    if not groups:
        raise MachineryFault("empty trace " + trace_path)
    shards = max(1, min(shards or NCPU, len(groups) // per_shard_min or 1))
    parts = [groups[i::shards] for i in range(shards)]
    parts = [p for p in parts if p]

    def work(part):
        acc, rej = 0, []
        part = list(part)
        rounds = 0
        while part:
            d = scratch("tr")
            tp = os.path.join(d, "trace.ndjson")
            flat = [ln for g in part for ln in g]
            with open(tp, "w") as f:
                f.write("\n".join(flat) + "\n")
            r = run_tlc(module, cfg=cfg or module, files={"trace.ndjson": tp}, workers=1,
                        timeout=timeout, deque=deque, cfg_text=cfg_text)
            shutil.rmtree(d, ignore_errors=True)
            ctx.add_tlc(r, "trace:" + module)
            if r.timed_out:
                raise MachineryFault("TLC timed out validating %s" % module)
            consumed = max(r.depth - 1, 0)
            if r.ok and consumed == len(flat):
                acc += len(part)
                break
            if r.error is not None and "ostcondition" not in r.error and "nvariant" not in r.error:
                # an evaluation error (overflow, type mismatch, missing field ...) is a fault of the
                # specification or of the trace format - never a verdict about the code
                raise MachineryFault("TLC failed on %s: %s\n%s" % (module, r.error, r.out[-2500:]))
            # first unconsumed record (an invariant violation is reported at the state after
            # the offending step, so the offending record is the last consumed one)
            idx = consumed
            if r.error and "nvariant" in r.error:
                idx = max(consumed - 1, 0)
            if idx >= len(flat):
                raise MachineryFault("TLC rejected %s without an unconsumed line: %s\n%s"
                                     % (module, r.error, r.out[-1500:]))
            k, gi = 0, 0
            for gi, g in enumerate(part):
                if idx < k + len(g):
                    break
                k += len(g)
            rej.append({"case_lines": part[gi], "line": flat[idx], "tlc": (r.error or "trace not fully consumed"),
                        "index_in_case": idx - k})
            acc += gi
            part = part[gi + 1:]
            rounds += 1
            if rounds >= max_reject:
                break
        return acc, rej

    accepted, rejected = 0, []
    with cf.ThreadPoolExecutor(max_workers=len(parts)) as ex:
        for acc, rej in ex.map(work, parts):
            accepted += acc
            rejected += rej
    ctx.traces += accepted
    return accepted, rejected


# --------------------------------------------------------------------------- context / verdict / evidence

class Ctx:
    def __init__(self, prop, tier, seed):
        self.prop = prop
        self.tier = tier
        self.seed = seed
        self.t0 = time.time()
        self.states = 0
        self.transitions = 0
        self.traces = 0
        self.evaluations = 0
        self.distinct = 0
        self.samples = []
        self.tlc_runs = []
        self.violations = []      # (key, what, replay_path)
        self.known_hits = []
        self.unreproduced = []    # deviations seen once that did not show again on re-execution
        self.notes = []
        self.extra = {}
        self.exhaustive = False
        self.rule = ""
        self.trusted = ["TLC 2 (tla2tools 1.8.0) and the CommunityModules Json/Bitwise overrides",
                        "Go toolchain", "the Go harness drivers (cmd/lz4verif)"]
        self.assumptions = []
        kf = os.path.join(VERIF, "known_findings.json")
        self.known = []
        if os.path.exists(kf):
            self.known = [k for k in json.load(open(kf)).get("findings", [])
                          if k.get("property") == prop and k.get("status") == "known"]

    def add_tlc(self, r, what):
        self.states += r.distinct
        self.transitions += r.generated
        self.tlc_runs.append({"what": what, "distinct": r.distinct, "generated": r.generated,
                              "depth": r.depth, "wall_s": round(r.wall, 2), "rc": r.rc})

    def sample(self, s, limit=6):
        if len(self.samples) < limit:
            self.samples.append(s)

    def mc(self, module, cfg=None, workers=None, timeout=900, want_cases=False, extra=None, heap="4g", cfg_text=None):
        """Exhaustive TLC run of a bounded configuration; a counterexample here is a model
        finding (exit 2 path), not a verdict about the code."""
        r = run_tlc(module, cfg=cfg, workers=workers or min(NCPU, 8), timeout=timeout,
                    want_cases=want_cases, extra=extra, heap=heap, cfg_text=cfg_text)
        self.add_tlc(r, "mc:" + (cfg or module))
        if r.timed_out:
            raise MachineryFault("TLC timed out on %s" % (cfg or module))
        if not r.ok:
            raise MachineryFault("TLC reports an error on %s (model-level, not a verdict on the code):\n%s\n%s"
                                 % (cfg or module, r.error, r.out[-3000:]))
        return r

    # ---- verdicts
    def violation(self, key, what, replay):
        """Record a confirmed (re-executed) deviation of the real code."""
        for k in self.known:
            if k["key"] == key or (k.get("key_prefix") and key.startswith(k["key_prefix"])):
                if k not in self.known_hits:
                    self.known_hits.append(k)
                return
        if any(v[0] == key for v in self.violations):
            self.extra["violations_same_key"] = self.extra.get("violations_same_key", 0) + 1
            return
        os.makedirs(os.path.join(OUTDIR, "replays", self.prop), exist_ok=True)
        h = hashlib.sha1(json.dumps(replay, sort_keys=True).encode()).hexdigest()[:12]
        path = os.path.join(OUTDIR, "replays", self.prop, "%s-%s.json" % (re.sub(r"[^A-Za-z0-9_.-]", "_", key)[:60], h))
        with open(path, "w") as f:
            json.dump(replay, f, indent=1)
        self.violations.append((key, what, path))

    def unreproducible(self, what):
        """A deviation that did not reproduce: never a violation; exit 2 unless a confirmed one exists."""
        log("deviation not reproduced on re-execution:", what[:400])
        if re.search(r"hang|hung|watchdog|process-stuck|never returns", what):
            # a watchdog that expired once while the same case then ran to its end: a slow machine, not a stuck call
            # (a call that never returns does not return on re-execution either)
            self.notes.append("watchdog expiry not reproduced (load): " + what[:300])
            return
        self.unreproduced.append(what[:400])

    def finish(self, level="model_checking"):
        wall = time.time() - self.t0
        cov = {
            "states": self.states, "transitions": self.transitions,
            "traces_validated_against_impl": self.traces,
            "evaluations": self.evaluations, "distinct_nontrivial": self.distinct,
            "rule": self.rule, "samples": self.samples or ["(none)"],
            "exhaustive": self.exhaustive, "trusted_base": self.trusted,
            "tlc_runs": self.tlc_runs[:40], "tlc_run_count": len(self.tlc_runs),
            "notes": self.notes, "unreproduced": self.unreproduced,
        }
        cov.update(self.extra)
        ev = {"property_id": self.prop, "tier": self.tier, "seed": self.seed, "level": level,
              "coverage": cov, "assumptions": self.assumptions, "wall_s": round(wall, 2),
              "violations": len(self.violations)}
        os.makedirs(os.path.join(OUTDIR, "evidence"), exist_ok=True)
        with open(os.path.join(OUTDIR, "evidence", self.prop + ".json"), "w") as f:
            json.dump(ev, f, indent=1)
        for k in self.known_hits:
            print("KNOWN-FINDING: property=%s %s" % (self.prop, k["what"]), flush=True)
        for key, what, path in self.violations:
            log("violation [%s]: %s" % (key, what))
            print("VIOLATION property=%s replay=%s" % (self.prop, path), flush=True)
        log("%s %s: states=%d transitions=%d traces=%d evaluations=%d distinct=%d wall=%.1fs violations=%d"
            % (self.prop, self.tier, self.states, self.transitions, self.traces, self.evaluations,
               self.distinct, wall, len(self.violations)))
        if self.violations:
            return 1
        if self.unreproduced:
            log("MACHINERY FAULT (exit 2): %d deviation(s) could not be reproduced" % len(self.unreproduced))
            return 2
        return 0


def main_wrapper(fn):
    """Run a check body; map MachineryFault to exit 2."""
    try:
        rc = fn()
    except MachineryFault as e:
        log("MACHINERY FAULT (exit 2, not a verdict):", e)
        sys.exit(2)
    except subprocess.TimeoutExpired as e:
        log("MACHINERY FAULT (timeout, exit 2):", e)
        sys.exit(2)
    sys.exit(rc)
