"""C15 - I/O failures are reported faithfully and read fragmentation is irrelevant.

 spec:  Writer.tla (action SinkFails, sticky error), LZ4Frame.tla / LZ4Frame_Trace (FaultOK)
 MC:    MC_WriterFault: every call sequence <= 4 calls with a sink that may fail during any call
        (conservation, sticky failure, no successful close after a failure)
 gen:   fault enumeration - for each option vector that changes the sink-call pattern (block checksum, content
        size, content checksum, legacy, concurrency) and each input / history class, the fault-free run gives N
        sink calls; EVERY k in 1..N is injected (N <= 64, else first 16, last 16 and 32 sampled).  Reader: every
        k-th source call failing, under fragmentation patterns (single bytes, 2/3/5-byte chunks, data returned
        together with io.EOF, interleaved zero-length reads)
 val:   Writer_Trace: the call during which the k-th sink call happened returns the injected error (sequential),
        or a later one, at the latest Close (concurrent); nothing reaches the sink afterwards; the sink holds a
        prefix of the fault-free output.  LZ4Frame_Trace_C15: the Reader returns the injected error, never a clean
        end; delivered bytes are a prefix of the content; without a fault every fragmentation delivers the content.
"""
import json
import os
import random

import vlib
from checks import framelib as fl


def pick_ks(n, rnd):
    if n <= 64:
        return list(range(1, n + 1))
    ks = set(range(1, 17)) | set(range(n - 15, n + 1))
    while len(ks) < 64:
        ks.add(rnd.randrange(17, n - 15))
    return sorted(ks)


def run(ctx):
    q = ctx.tier == "quick"
    ctx.rule = ("Writer: option vectors {block checksum} x {size field} x {content checksum} x {legacy} x {concurrency 1, 4} x inputs "
                "{empty, 50 bytes, B+1, 3B+5} x histories {Write Close; ReadFrom Close; Write Flush Write Close}: every sink call index k "
                "fails once. Reader: valid frames x fragmentation patterns x every source call index k. distinct = distinct (case, k)")
    b = vlib.build_harness()
    d = vlib.scratch("c15")
    rnd = random.Random(ctx.seed * 211 + 15)
    ctx.mc("MC_Writer", cfg="MC_WriterFault", timeout=900)
    ctx.exhaustive = True

    # ---- Writer: fault-free runs first
    base = []
    for bcs in (False, True):
        for size in (None, 1):
            for ccs, legacy, conc in ((True, False, 1), (False, False, 4), (True, False, 4), (False, True, 1), (False, True, 4)):
                if legacy and (bcs or size):
                    continue
                o = {"code": 4, "bcs": bcs, "ccs": ccs, "level": 0, "conc": conc, "legacy": legacy, "handler": False}
                B = fl.block_of(o)
                sizes = [0, 50, B + 1] + ([3 * B + 5] if not legacy else [])
                if q and legacy:
                    sizes = [0, 50]
                for n in sizes:
                    hs = [[{"op": "write", "n": n}, {"op": "close"}], [{"op": "readfrom", "n": 0}, {"op": "close"}]]
                    if n >= 50:
                        hs.append([{"op": "write", "n": n // 3}, {"op": "flush"}, {"op": "write", "n": n - n // 3}, {"op": "close"}])
                    if n > B and not q:
                        hs.append([{"op": "write", "n": 100}, {"op": "write", "n": n - 100}, {"op": "flush"}, {"op": "close"}])
                    if n == 50 or (n > B and not q):
                        # Flush / Close as the first call that touches the sink (a failure there hits the frame header), and a
                        # caller who goes on after the failure: Flush again, Write, Close
                        hs.append([{"op": "flush"}, {"op": "write", "n": n}, {"op": "close"}])
                        hs.append([{"op": "flush"}, {"op": "flush"}, {"op": "write", "n": n}, {"op": "flush"}, {"op": "close"}, {"op": "close"}])
                    for h in hs:
                        oo = dict(o)
                        if size:
                            oo["size"] = n if n else 7
                        cid = len(base) + 1
                        # (a legacy frame with an incompressible 8 MiB block is the known C09 finding: text only there)
                        base.append({"id": cid, "input": fl.input_for(rnd, n, "text" if legacy else rnd.choice(["text", "blockmix"])), "opts": oo, "calls": h,
                                     "save": os.path.join(d, "ff-%d.lz4" % cid)})
                        base[-1]["input"]["p1"] = B
    ff, faults = fl.shard_run(b, "frame-write", base, d, "ff")
    if faults:
        raise vlib.MachineryFault("frame-write failed: %s" % faults[0]["stderr"][-800:])
    fcases = []
    for c in base:
        w = ff[c["id"]]
        if w["frames"][0]["status"] != "ok":
            raise vlib.MachineryFault("fault-free run of case %d is not a valid frame (%s)" % (c["id"], w["frames"][0]["status"]))
        n = len(w["sinkCalls"])
        for k in pick_ks(n, rnd):
            for once in (False, True):          # a sink that stays broken, and a transient fault at exactly call k
                fc = dict(c, id=len(fcases) + 1, failAt=k, once=once, prefixOf=c["save"], base=c["id"])
                fc.pop("save")
                fcases.append(fc)
    fr, faults = fl.shard_run(b, "frame-write", fcases, d, "fault", extra=("--watchdog", "60s"))
    if faults:
        raise vlib.MachineryFault("frame-write (faults) failed: %s" % faults[0]["stderr"][-800:])
    ctx.evaluations += len(ff) + len(fr)
    ctx.distinct += len(fcases)
    by_f = {c["id"]: c for c in fcases}
    runs = [ff[c["id"]] for c in base] + [fr[c["id"]] for c in fcases if c["id"] in fr]
    # fault runs and fault-free runs share ids: renumber the fault-free ones for the trace
    for w in runs[:len(base)]:
        w["case"] = -w["case"]
    ctx.sample({"fault_case": {k: v for k, v in fcases[len(fcases) // 2].items() if k not in ("prefixOf",)},
                "events": fl.writer_events(fr[fcases[len(fcases) // 2]["id"]])})
    for rj in fl.validate_writer_runs(ctx, runs, d, max_reject=6):
        rec = json.loads(rj["line"])
        if rec["case"] < 0:
            raise vlib.MachineryFault("fault-free run rejected by Writer_Trace (C02/C09 territory): %s" % rj["line"][:300])
        c = by_f[rec["case"]]
        w = fr[c["id"]]
        errs = [x["err"] for x in w.get("calls", [])]
        key = "C15:writer:%s:%s:conc=%s:%s:errors=%s:prefix=%s" % ("transient" if c.get("once") else "permanent", "legacy" if c["opts"]["legacy"] else "frame", "1" if c["opts"]["conc"] == 1 else ">1",
                                                             "-".join(x["op"] for x in c["calls"]),
                                                             "none" if all(e == "none" for e in errs[1:]) else "reported", w.get("sinkIsPrefix"))
        if any(v[0] == key for v in ctx.violations):
            continue
        rej2 = None
        for attempt in range(10 if c["opts"]["conc"] != 1 else 1):
            again, _ = fl.shard_run(b, "frame-write", [c], d, "again", nshards=1, extra=("--watchdog", "60s"))
            sub = vlib.Ctx(ctx.prop, ctx.tier, ctx.seed)
            rej2 = fl.validate_writer_runs(sub, [again[c["id"]]], d)
            if rej2:
                break
        if not rej2:
            ctx.unreproducible("%s: %s" % (key, rj["line"]))
            continue
        slim = json.loads(json.dumps(again[c["id"]]))
        for f_ in slim.get("frames", []):
            f_["blocks"] = f_["blocks"][:6]
        slim.pop("bytes", None)
        ctx.violation(key, "sink failure at call %d is not handled as C15 requires: %s" % (c["failAt"], key),
                      {"kind": "c15-writer", "case": {k: v for k, v in c.items() if k != "prefixOf"}, "observed": slim,
                       "rejected_event": json.loads(rej2[0]["line"])})

    # ---- Reader: fragmentation and source faults
    # (the concurrency with which a frame was written does not matter for reading it: take every option vector)
    frames = [c for c in base if c["calls"][0]["op"] == "write" and len(c["calls"]) == 2]
    if q:
        frames = frames[::2]
    rcases = []
    for c in frames:
        n = os.path.getsize(c["save"])
        pats = [[], [2, 3, 5], [0, 7, 0, 0, 11], [4096], [1 << 20]] + ([[1]] if n <= 4000 else [[997]])
        for pi, pat in enumerate(pats):
            for conc, mode in ((1, "read"), (4, "read"), (1, "writeto"), (4, "writeto")) if (not q or pi % 2 == 0) else ((1, "read"), (4, "writeto")):
                cfg = {"conc": conc, "mode": mode, "bufs": [rnd.choice([4096, 70000, 13])], "frag": pat, "eofw": (pi + conc) % 2 == 0}
                rcases.append({"id": len(rcases) + 1, "chunks": [{"file": c["save"]}], "cfg": cfg, "content": c["input"], "tag": {"hit": False, "base": c["id"]}})
        # ... behind a skippable frame (a source failure while its bytes are being skipped), and with Read buffers that
        # cross block boundaries (an error that arrives after bytes were already delivered in the same call)
        if c is frames[0] or c is frames[-1]:
            for conc, mode in ((1, "read"), (4, "writeto")):
                rcases.append({"id": len(rcases) + 1, "chunks": [{"bytes": [0x5B, 0x2A, 0x4D, 0x18, 40, 0, 0, 0] + [3] * 40}, {"file": c["save"]}],
                               "cfg": {"conc": conc, "mode": mode, "bufs": [4096], "frag": [7], "eofw": False}, "content": c["input"], "tag": {"hit": False, "base": c["id"]}})
        if n > 70000:
            for conc in (1, 4):
                rcases.append({"id": len(rcases) + 1, "chunks": [{"file": c["save"]}], "cfg": {"conc": conc, "mode": "read", "bufs": [rnd.choice([70000, 200000])], "frag": [], "eofw": False},
                               "content": c["input"], "tag": {"hit": False, "base": c["id"], "once": True}})
    ffr, faults = fl.shard_run(b, "frame-read", rcases, d, "rff", extra=("--watchdog", "60s"))
    if faults:
        raise vlib.MachineryFault("frame-read failed: %s" % faults[0]["stderr"][-800:])
    fault_reads = []
    for c in rcases:
        r = ffr[c["id"]]
        if c["cfg"]["conc"] != 1 and c["cfg"]["frag"] == [1]:
            continue
        ncalls = r["srcCalls"]
        ks = pick_ks(ncalls, rnd) if ncalls <= 64 else sorted(set(pick_ks(ncalls, rnd)[::(4 if q else 1)]))
        for k in ks:
            fc = json.loads(json.dumps(c))
            fc["id"] = len(fault_reads) + 100000
            fc["cfg"]["failat"] = k
            fc["cfg"]["failkind"] = (k + len(fault_reads)) % 3
            fc["tag"] = {"hit": None, "base": c["tag"]["base"], "k": k}
            fault_reads.append(fc)
            if c["tag"].get("once") or k % 5 == 0:
                # a transient fault: only the k-th call fails
                fo = json.loads(json.dumps(fc))
                fo["id"] = len(fault_reads) + 100000
                fo["cfg"]["failonce"] = True
                fault_reads.append(fo)
    frr, faults = fl.shard_run(b, "frame-read", fault_reads, d, "rf", extra=("--watchdog", "60s"))
    if faults:
        raise vlib.MachineryFault("frame-read (faults) failed: %s" % faults[0]["stderr"][-800:])
    ctx.evaluations += len(ffr) + len(frr)
    ctx.distinct += len(rcases) + len(fault_reads)
    allc = rcases + fault_reads
    allr = dict(ffr)
    allr.update(frr)
    by_r = {c["id"]: c for c in allc}
    tp = os.path.join(d, "rtrace.ndjson")
    with open(tp, "w") as f:
        for c in allc:
            f.write(json.dumps(read_event(c, allr[c["id"]]), separators=(",", ":")) + "\n")
    acc, rej = vlib.validate_trace(ctx, "LZ4Frame_Trace", tp, cfg="LZ4Frame_Trace_C15", timeout=3000, max_reject=6)
    ctx.sample({"reader_fault_event": {k: v for k, v in read_event(fault_reads[3], frr[fault_reads[3]["id"]]).items() if k not in ("bytes", "delivered", "content")}})
    for rj in rej:
        rec = json.loads(rj["line"])
        c = by_r[rec["case"]]
        key = "C15:reader:%s:conc=%s:frag=%s:eofw=%s:fault=%s:outcome=%s/%s:prefix=%s" % (
            c["cfg"]["mode"], "1" if c["cfg"]["conc"] == 1 else ">1", "none" if not c["cfg"]["frag"] else ("zero-reads" if 0 in c["cfg"]["frag"] else "chunks"),
            c["cfg"]["eofw"], "yes" if rec["hit"] else "no", rec["outcome"], rec["err"], rec["prefixOfContent"])
        if any(v[0] == key for v in ctx.violations):
            continue
        rej2 = None
        for attempt in range(10 if c["cfg"]["conc"] != 1 else 1):
            rr, _ = fl.shard_run(b, "frame-read", [c], d, "again-r", nshards=1, extra=("--watchdog", "60s"))
            t2 = os.path.join(d, "again-r.ndjson")
            vlib.write_ndjson(t2, [read_event(c, rr[c["id"]])])
            sub = vlib.Ctx(ctx.prop, ctx.tier, ctx.seed)
            a2, rej2 = vlib.validate_trace(sub, "LZ4Frame_Trace", t2, cfg="LZ4Frame_Trace_C15", shards=1)
            if rej2:
                break
        if not rej2:
            ctx.unreproducible("%s: %s" % (key, rj["line"][:300]))
            continue
        obs = {k: v for k, v in rr[c["id"]].items() if k not in ("bytes", "delivered", "content", "log")}
        ctx.violation(key, "source fault / fragmentation not handled as C15 requires: %s" % key,
                      {"kind": "c15-reader", "case": {k: v for k, v in c.items() if k != "chunks"},
                       "frame_case": next(x for x in base if x["id"] == c["tag"]["base"]), "observed": obs})


def read_event(c, r):
    e = dict(r)
    k = c["cfg"].get("failat", 0)
    e["hit"] = bool(k) and r["srcCalls"] >= k
    e.setdefault("prefixOfContent", True)
    e.setdefault("content", [])
    for x in ("errtext", "log", "cfg", "tag", "extraErr"):
        e.pop(x, None)
    return e


def replay(ctx, path):
    rp = json.load(open(path))
    b = vlib.build_harness()
    d = vlib.scratch("c15r")
    if rp["kind"] == "c15-writer":
        c = dict(rp["case"])
        ffc = dict(c, id=1, save=os.path.join(d, "ff.lz4"))
        ffc.pop("failAt", None)
        fl.shard_run(b, "frame-write", [ffc], d, "ff", nshards=1)
        c["prefixOf"] = ffc["save"]
        rr, _ = fl.shard_run(b, "frame-write", [c], d, "again", nshards=1, extra=("--watchdog", "60s"))
        rej = fl.validate_writer_runs(ctx, [rr[c["id"]]], d)
    else:
        fc = dict(rp["frame_case"], save=os.path.join(d, "f.lz4"))
        fl.shard_run(b, "frame-write", [fc], d, "ff", nshards=1)
        c = dict(rp["case"], chunks=[{"file": fc["save"]}])
        rr, _ = fl.shard_run(b, "frame-read", [c], d, "r", nshards=1, extra=("--watchdog", "60s"))
        tp = os.path.join(d, "t.ndjson")
        vlib.write_ndjson(tp, [read_event(c, rr[c["id"]])])
        acc, rej = vlib.validate_trace(ctx, "LZ4Frame_Trace", tp, cfg="LZ4Frame_Trace_C15", shards=1)
    if rej:
        print("VIOLATION property=C15 replay=%s" % path)
        return 1
    print("replay: deviation not observed")
    return 0


def selftest(ctx):
    b = vlib.build_harness()
    d = vlib.scratch("c15s")
    c = {"id": 1, "input": {"family": "text", "len": 70000, "seed": 1}, "save": os.path.join(d, "ff.lz4"),
         "opts": {"code": 4, "bcs": True, "ccs": True, "level": 0, "conc": 1, "legacy": False, "handler": False},
         "calls": [{"op": "write", "n": 70000}, {"op": "close"}]}
    fl.shard_run(b, "frame-write", [c], d, "ff", nshards=1)
    fc = dict(c, id=2, failAt=4, prefixOf=c["save"])
    fc.pop("save")
    rr, _ = fl.shard_run(b, "frame-write", [fc], d, "f", nshards=1)
    w = rr[2]
    if fl.validate_writer_runs(ctx, [w], d):
        raise vlib.MachineryFault("selftest C15: correct fault run rejected")
    w2 = json.loads(json.dumps(w))
    for call in w2["calls"]:
        call["err"] = "none"          # the failure swallowed by every call, Close included
    if len(fl.validate_writer_runs(ctx, [w2], d)) != 1:
        raise vlib.MachineryFault("selftest C15: swallowed failure not rejected")
    print("selftest C15 ok")
    return 0
