"""Per-property registration data used by bin/mkmanifest (MANIFEST.json is generated)."""

HOOK_COMMITS = ["1eccb32", "b6ff38a"]

LEVEL_NOTE_COMMON = ("Trusted: TLC and the CommunityModules Json/Bitwise Java overrides; the Go toolchain; the harness "
                     "drivers; Go reference functions only where named, each re-validated against the TLA+ text by TLC "
                     "in the same run. Bounded: see evidence.coverage.rule for the bounds of this run.")

CHECKS = {
    "C13": {
        "technique": "TLA+ spec of XXH32 (one-shot + reference streaming machine) model-checked by TLC; every behaviour of "
                     "the bounded write graph and TLC-enumerated injected states replayed into the real hash; recorded "
                     "executions (random splits, real 2^32-1..2^32+16 byte runs) validated by TLC trace validation",
        "text": "TLC checks exhaustively (16 x 49 x 5 write graph) that the reference streaming machine refines the one-shot "
                "XXH32 written from the xxHash specification in limb arithmetic; the whole graph is replayed into the real "
                "streaming type and one-shot function (exact digests after every write); recorded real executions, including "
                "really written totals of 2^32-1..2^32+16 bytes, are accepted by the trace specification, which binds the "
                "logged lanes/total/carry buffer to the model state at every step. Model checking is the right level because "
                "the streaming state space (carry fill x next length) is finite and small, and the arithmetic is exact in TLC.",
        "design_ref": "DESIGN.md section 5 (C13)",
        "note": "arm assembly of xxh32 not executable on this host; totals beyond 2^32+16 by state injection through the verif hook.",
    },
}

_BLK_TECH = ("TLA+ definition of the LZ4 block format (LZ4Block.tla: total Decode) model-checked on the block-grammar "
             "state machine; TLC-enumerated class-product and positioned cases with TLC-computed expectations replayed into "
             "both decoder builds; seeded mutants executed and validated by TLC trace validation (LZ4Block_Trace)")
CHECKS["C03"] = {
    "technique": _BLK_TECH + "; memory-safety sensors (canary arenas with spare capacity, PROT_NONE guard pages) judged by the trace spec",
    "text": "TLC enumerates blocks whose sequences sit 0..48 bytes from the end of source and destination for every literal/"
            "match/offset class that enables a wide-copy shortcut, plus the grammar class product and seeded mutants; each runs "
            "on the assembly and the portable decoder with buffers ending at an unmapped page and inside canary arenas; the trace "
            "specification accepts a record only if no panic/fault occurred, canaries, source and dictionary are intact and the "
            "count is within len(dst). Bounded enumeration is the right level: the shortcut guards depend only on small distances.",
    "design_ref": "DESIGN.md section 5 (C03)",
    "note": "Out-of-bounds detection relies on the sensors, not on TLC; arm/arm64 assembly not executable on this host.",
}
CHECKS["C04"] = {
    "technique": _BLK_TECH,
    "text": "LZ4Block.tla defines, for every byte string, dictionary and destination size, either the decoded bytes or one of the "
            "four mandated error classes (or 'other', where the property is silent). TLC proves on the grammar machine that this "
            "definition inverts serialisation, and generates the class product of C04's quantifier with expected results; the real "
            "decoders (both builds, three destination pre-fills) must reproduce them byte for byte, and every seeded mutant's "
            "observation is re-derived by TLC in trace validation.",
    "design_ref": "DESIGN.md section 5 (C04)",
    "note": "Blocks up to ~1.1 KiB at byte level; dictionaries up to 65535 bytes are pattern-defined.",
}
CHECKS["C12"] = {
    "technique": _BLK_TECH + "; joint records of the default and noasm builds compared by the trace spec",
    "text": "Every generated and mutated case is executed by two harness binaries (default = amd64 assembly, -tags noasm = portable) "
            "and joined by case id; the trace specification requires identical error/length/bytes and, where Decode is defined, "
            "equality with it. Covers the C03 and C04 case streams.",
    "design_ref": "DESIGN.md section 5 (C12)",
    "note": "Only amd64 assembly vs portable can be compared on this host.",
}
