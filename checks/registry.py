"""Per-property registration data used by bin/mkmanifest (MANIFEST.json is generated)."""

HOOK_COMMITS = ["1eccb32"]

LEVEL_NOTE_COMMON = ("Trusted: TLC and the CommunityModules Json/Bitwise Java overrides; the Go toolchain; the harness "
                     "drivers; Go reference functions only where named, each re-validated against the TLA+ text by TLC "
                     "in the same run. Bounded: see evidence.coverage.rule for the bounds of this run.")

CHECKS = {
    "C13": {
        "technique": "TLA+ spec of XXH32 (one-shot + reference streaming machine) model-checked by TLC; every behaviour of "
                     "the bounded write graph and TLC-enumerated injected states replayed into the real hash; recorded "
                     "executions (random splits, real 2^32-1..2^32+16 byte runs) validated by TLC trace validation",
        "text": "TLC checks exhaustively (16 x 49 x 5 write graph) that the reference streaming machine refines the one-shot "
                "XXH32 written from the xxHash specification in limb arithmetic; the whole graph is replayed into the real "
                "streaming type and one-shot function (exact digests after every write); recorded real executions, including "
                "really written totals of 2^32-1..2^32+16 bytes, are accepted by the trace specification, which binds the "
                "logged lanes/total/carry buffer to the model state at every step. Model checking is the right level because "
                "the streaming state space (carry fill x next length) is finite and small, and the arithmetic is exact in TLC.",
        "design_ref": "DESIGN.md section 5 (C13)",
        "note": "arm assembly of xxh32 not executable on this host; totals beyond 2^32+16 by state injection through the verif hook.",
    },
}
