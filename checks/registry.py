"""Per-property registration data used by bin/mkmanifest (MANIFEST.json is generated)."""

HOOK_COMMITS = ["1eccb32", "b6ff38a", "5d85079", "727adc8"]

LEVEL_NOTE_COMMON = ("Trusted: TLC and the CommunityModules Json/Bitwise Java overrides; the Go toolchain; the harness "
                     "drivers; Go reference functions only where named, each re-validated against the TLA+ text by TLC "
                     "in the same run. Bounded: see evidence.coverage.rule for the bounds of this run.")

CHECKS = {
    "C13": {
        "technique": "TLA+ spec of XXH32 (one-shot + reference streaming machine) model-checked by TLC; every behaviour of "
                     "the bounded write graph and TLC-enumerated injected states replayed into the real hash; recorded "
                     "executions (random splits, real 2^32-1..2^32+16 byte runs) validated by TLC trace validation",
        "text": "TLC checks exhaustively (16 x 49 x 5 write graph) that the reference streaming machine refines the one-shot "
                "XXH32 written from the xxHash specification in limb arithmetic; the whole graph is replayed into the real "
                "streaming type and one-shot function (exact digests after every write); recorded real executions, including "
                "really written totals of 2^32-1..2^32+16 bytes, are accepted by the trace specification, which binds the "
                "logged lanes/total/carry buffer to the model state at every step. Model checking is the right level because "
                "the streaming state space (carry fill x next length) is finite and small, and the arithmetic is exact in TLC.",
        "design_ref": "DESIGN.md section 5 (C13)",
        "note": "arm assembly of xxh32 not executable on this host; totals beyond 2^32+16 by state injection through the verif hook.",
    },
}

_BLK_TECH = ("TLA+ definition of the LZ4 block format (LZ4Block.tla: total Decode) model-checked on the block-grammar "
             "state machine; TLC-enumerated class-product and positioned cases with TLC-computed expectations replayed into "
             "both decoder builds; seeded mutants executed and validated by TLC trace validation (LZ4Block_Trace)")
CHECKS["C03"] = {
    "technique": _BLK_TECH + "; memory-safety sensors (canary arenas with spare capacity, PROT_NONE guard pages) judged by the trace spec",
    "text": "TLC enumerates blocks whose sequences sit 0..48 bytes from the end of source and destination for every literal/"
            "match/offset class that enables a wide-copy shortcut, plus the grammar class product and seeded mutants; each runs "
            "on the assembly and the portable decoder with buffers ending at an unmapped page and inside canary arenas; the trace "
            "specification accepts a record only if no panic/fault occurred, canaries, source and dictionary are intact and the "
            "count is within len(dst). Bounded enumeration is the right level: the shortcut guards depend only on small distances.",
    "design_ref": "DESIGN.md section 5 (C03)",
    "note": "Out-of-bounds detection relies on the sensors, not on TLC; arm/arm64 assembly not executable on this host.",
}
CHECKS["C04"] = {
    "technique": _BLK_TECH,
    "text": "LZ4Block.tla defines, for every byte string, dictionary and destination size, either the decoded bytes or one of the "
            "four mandated error classes (or 'other', where the property is silent). TLC proves on the grammar machine that this "
            "definition inverts serialisation, and generates the class product of C04's quantifier with expected results; the real "
            "decoders (both builds, three destination pre-fills) must reproduce them byte for byte, and every seeded mutant's "
            "observation is re-derived by TLC in trace validation.",
    "design_ref": "DESIGN.md section 5 (C04)",
    "note": "Blocks up to ~1.1 KiB at byte level; dictionaries up to 65535 bytes are pattern-defined.",
}
CHECKS["C12"] = {
    "technique": _BLK_TECH + "; joint records of the default and noasm builds compared by the trace spec",
    "text": "Every generated and mutated case is executed by two harness binaries (default = amd64 assembly, -tags noasm = portable) "
            "and joined by case id; the trace specification requires identical error/length/bytes and, where Decode is defined, "
            "equality with it. Covers the C03 and C04 case streams.",
    "design_ref": "DESIGN.md section 5 (C12)",
    "note": "Only amd64 assembly vs portable can be compared on this host.",
}

_CMP_TECH = ("TLA+ state machine of the block-compression API (BlockAPI.tla: objects, pools, call keys, memo) and LZ4Block.tla; "
             "TLC enumerates all API histories <= 3 calls and the length x period x destination grid, the harness executes them on "
             "the real compressors, and every recorded call is judged by TLC trace validation (BlockAPI_Trace): TLC decodes the "
             "emitted block itself for sources <= 160 bytes, checks sequence triples and harness-evaluated equalities above")
CHECKS["C01"] = {
    "technique": _CMP_TECH,
    "text": "Each recorded CompressBlock call with len(dst) >= CompressBlockBound must succeed and its block must decode to the "
            "source: at byte level TLC's own Decode of the block equals the source, at field level the triples sum to the length, "
            "literal runs and matches equal the source slices (lemma DecodeBySeqs model-checked in MC_LZ4Block) and the real "
            "decoder returned the source. Histories come from TLC (fresh/reused/pooled objects), inputs from exhaustive short "
            "strings and seeded families aimed at the 64 KiB window edge. The promise is judged against the code's own "
            "CompressBlockBound: BoundLemma.tla (TLC to n = 300000, Apalache for every n) shows the literal-only worst case fits the "
            "specified bound; the code's bound is evaluated on a grid of lengths up to 2^30, every length where it is below the worst "
            "case becomes an executed case, and incompressible sources of 1 MiB and more are compressed into exactly the code's bound. "
            "FastTable.tla / FastTableInd.tla cover the 16-bit position table of the fast compressor.",
    "design_ref": "DESIGN.md section 5 (C01), 12.9",
    "note": "Sources up to 4 MiB (incompressible: 3 MiB quick, 48 MiB thorough); HC depths sampled from 0,1,2,3,16, the nine named levels, 65537, 2^31-1.",
}
CHECKS["C10"] = {
    "technique": _CMP_TECH + "; StrictValid / StrictValidP predicates of LZ4Block.tla",
    "text": "Every successful compress call (including partial successes with destinations below the bound) must yield sequence "
            "triples satisfying StrictValid: offsets 1..65535 within the output so far, literal-only last sequence, last 5 bytes "
            "literals, last match starting >= 12 bytes before the end; TLC evaluates the predicate on triples it parsed itself "
            "(byte level) or on logged triples whose position chain it re-checks (field level).",
    "design_ref": "DESIGN.md section 5 (C10)",
    "note": "Grid: lengths 0..80 x periods 1..8 x destination 0..bound+2 (thinned in quick) plus all C01 executions.",
}
CHECKS["C11"] = {
    "technique": _CMP_TECH + "; canary arena with spare capacity behind len(dst) as write sensor",
    "text": "Each recorded call must satisfy the destination contract predicate C11 of BlockAPI_Trace: no panic, canaries behind "
            "len(dst) intact (destinations are sub-slices with 0/1/64/4096 bytes of spare capacity), 0 <= n <= len(dst), success "
            "whenever len(dst) >= bound, n = 0 only below the bound, and n > 0 implies a complete block for the whole source.",
    "design_ref": "DESIGN.md section 5 (C11)",
    "note": "Writes outside len(dst) are detected by canaries (not by TLC).",
}
CHECKS["C14"] = {
    "technique": _CMP_TECH + "; determinism as memo consistency over call keys",
    "text": "BlockAPI's Call action is enabled only if the call key (source, kind, depth, len(dst)) maps to the same output id as "
            "before; traces of TLC-generated histories (object reuse across unrelated inputs, pooled compressors used from 4 "
            "goroutines) and a second pass grouping all records of the run by key must be accepted.",
    "design_ref": "DESIGN.md section 5 (C14)",
    "note": "Frame level: groups of runs for one (input, options) - concurrency 1/2/4/16, seeded schedule perturbation with poisoned "
            "pools, partitions of the input from MC_Writer's Write-only histories plus B+-1, single-byte and seeded pieces - must emit "
            "byte-identical frames (memo key = (input, options)).",
}

CHECKS["C19"] = {
    "technique": "TLA+ frame-format spec (LZ4Frame.tla + XXH32.tla); TLC computes the header-checksum table for the descriptor "
                 "space, the harness enumerates all 256 checksum bytes per row through ValidFrameHeader and a (fresh and Reset-"
                 "reused) Reader; seeded random headers validated by TLC trace validation (LZ4Frame_Trace, event hdr)",
    "text": "The acceptance rule of C19 is a finite function of (FLG, BD, size field, checksum byte). TLC evaluates the "
            "specification's side of it for every FLG value and (quick) 16 / (thorough) all 256 BD values, with and without a "
            "content-size field of five 64-bit values; the real code is run on all 256 checksum bytes of each row and must accept "
            "exactly the byte TLC computed when the block-size code is defined, report the two rejections as their own errors, and "
            "expose the size unchanged through Size (also on a Reader reused through Reset). Thorough enumerates the whole 2^24 x 6 "
            "space; MC_LZ4Frame checks the parser used for the recorded-header validation.",
    "design_ref": "DESIGN.md section 5 (C19)",
    "note": "Content sizes are five representative 64-bit values, not all 2^64.",
}

_FRAME_TECH = ("TLA+ frame-format specification (LZ4Frame.tla: an executable parser/encoder of the frame and legacy formats over "
               "XXH32.tla and LZ4Block.tla) and Writer.tla; TLC model-checks parser/encoder inversion and the Writer's block cutting; "
               "recorded executions are judged by TLC trace validation")
CHECKS["C09"] = {
    "technique": _FRAME_TECH + " (LZ4Frame_Trace_C09 on the emitted bytes, Writer_Trace on the call/sink-call history)",
    "text": "Every frame emitted for the option vectors x input classes x entry points of the run is parsed by TLC with ParseStrict "
            "(magic, version 01, reserved bits, header checksum, configured content size, block sizes within the declared maximum, "
            "block checksums over the stored bytes, end mark, content checksum, decoded content = input; legacy: plain sizes, 8 MiB "
            "per block) - by TLC itself for frames up to 360 bytes, and through the reference parser's field summary above that, the "
            "reference parser being re-validated against the TLA+ text on small frames and mutants in the same run. The same runs "
            "are accepted by Writer_Trace, which binds each public call's sink-call count and the final block lengths to Writer.tla.",
    "design_ref": "DESIGN.md section 5 (C09)",
    "note": "CompressingReader and lz4c outputs are judged by the same predicate under C18 / C20.",
}

CHECKS["C02"] = {
    "technique": _FRAME_TECH + "; TLC-enumerated Writer call histories (MC_Writer) concretised per block size and executed; the "
                 "runs are validated against Writer.tla (Writer_Trace), LZ4Frame.tla (emitted frame) and Reader.tla (Reader_Trace)",
    "text": "TLC explores every Writer call sequence of <= 4 calls at B = 4 (conservation of accepted bytes, block cuts independent "
            "of the partition, one header, complete frame after Close) and exports the delivery histories; each is executed with "
            "real block sizes under seeded option vectors, and read back with every reader configuration class. Acceptance requires: "
            "the recorded Writer calls and per-call sink-call counts are a behaviour of Writer.tla, the emitted frame is strictly "
            "valid and decodes to the input, and every recorded Read/WriteTo call returns exactly what Reader.tla prescribes "
            "(full buffers, EOF exactly at the end and again afterwards without consuming source bytes, delivered = input).",
    "design_ref": "DESIGN.md section 5 (C02)",
    "note": "Inputs up to ~3 blocks; the full option matrix is sampled (every value of every option, seeded pairing), not enumerated.",
}

CHECKS["C17"] = {
    "technique": "TLA+ state machines of the Writer and Reader lifecycles (Writer.tla, Reader.tla: one action per public call, refused "
                 "calls included); TLC enumerates every call sequence up to the tier's length and each is executed exactly on "
                 "sequential and concurrent objects; the recorded calls are validated by Writer_Trace / Reader_Trace",
    "text": "All call sequences of length 4 (quick) / 5 (thorough) over the parameterised call alphabets are generated by TLC from "
            "the models and replayed on real objects inside watchdogged child processes. The trace specifications accept a run only "
            "if every call's result, error class and (sequential) sink-call count is the model's, each Close leaves exactly one "
            "complete, strictly valid frame carrying the bytes accepted since the last Reset with the descriptor the options "
            "imply (also after Reset), writes after Close produce no output, a second Close produces none, Flush leaves a decodable "
            "prefix, Read after the end returns io.EOF with zero source bytes consumed, Reset makes the object behave as new, and no "
            "call hangs, panics or writes without bound. The trace specifications also bind the lifecycle state the code reports "
            "after every call (verif accessor) to the model's. \"Reset makes the object indistinguishable from a new one\" is in "
            "addition checked differentially, without a model of the expected results: the calls after the last Reset of a Reader "
            "sequence give what the same calls give on a new Reader (8000 comparisons in quick); a Reader that read or abandoned a "
            "frame of another kind (checksums, legacy, block size, dependent blocks valid and invalid, other concurrency) reads the "
            "next frame as a new Reader does; a Writer Reset and re-configured (legacy on/off, block size, size, checksums) writes "
            "byte for byte what a new Writer with those options writes; lives that met a transient sink failure are followed by a "
            "clean life.",
    "design_ref": "DESIGN.md section 5 (C17), 12.9",
    "note": "Misuse not named by the property (Apply after writing, ReadFrom after Write, WriteTo after a partial Read) is modelled as "
            "the code behaves (error, then error state); only hang/panic/lost or duplicated data would be rejected there.",
}

_RF_TECH = ("TLA+ frame-format specification LZ4Frame.tla (ParseLenient: C19's header rule, everything else of the format); valid "
            "frames from the real Writer are transformed, read by the real Reader in every configuration class, and every recorded "
            "observation is judged by TLC trace validation (LZ4Frame_Trace), which parses the very bytes itself for inputs up to 360 "
            "bytes and uses the reference parser's summary above that")
CHECKS["C05"] = {
    "technique": _RF_TECH,
    "text": "For every mutant (all single-bit flips of small frames, flips at every structural byte of multi-block frames, sampled "
            "payload flips, block deletion/duplication/swap, end-mark deletion, splices) read to a clean end, TLC's own parse of the "
            "same bytes must be 'ok' with identical content - which entails header checksum, every declared block checksum, end "
            "mark and content checksum. Read and WriteTo, concurrency 1/2/4.",
    "design_ref": "DESIGN.md section 5 (C05)",
    "note": "Legacy frames: the Linux-kernel trailer rule (a word equal to the bytes decoded so far ends the stream) is part of the "
            "specification as this package documents it.",
}
CHECKS["C06"] = {
    "technique": _RF_TECH + "; MC_LZ4Frame proves at design level that every proper prefix of an encoded frame parses as 'truncated'",
    "text": "Every prefix length 1..len-1 of small frames and every structural boundary +-3 bytes plus sampled interior positions of "
            "multi-block frames is read with each reader configuration; the trace specification requires an error other than a "
            "clean end (legacy: except exactly at a block boundary), delivered bytes that are a prefix of the content, and - at byte "
            "level - that TLC's parse of the cut bytes is indeed 'truncated'.",
    "design_ref": "DESIGN.md section 5 (C06)",
    "note": "Clean = Read returning exactly io.EOF, or WriteTo returning nil.",
}
CHECKS["C07"] = {
    "technique": _RF_TECH + "; sensors: per-case watchdog, process exit status, goroutine stack scan, sampled peak heap",
    "text": "Hostile inputs built by field class (every first word around the three magic ranges, skippable lengths up to 2^32-1, "
            "block sizes up to 2^31-1 with/without the stored bit, content size 2^64-1, millions of repetitions of a legacy magic / "
            "skippable frame / empty block / whole frame), seeded random bytes and mutants are read sequentially and concurrently in "
            "child processes; the trace specification requires termination with data and/or error, ErrInvalidFrame exactly when TLC's "
            "parse says bad magic (so exactly the sixteen skippable magics skip), peak heap growth bounded by the declared block "
            "maximum, and no library goroutine left.",
    "design_ref": "DESIGN.md section 5 (C07)",
    "note": "Repetition counts up to 3*10^6 (quick) / 2*10^7 (thorough); the allocation bound has slack (64 MiB + 2*(conc+3) blocks).",
}

CHECKS["C15"] = {
    "technique": "TLA+ Writer model with fault actions (SinkFails, FlushFails) model-checked (MC_WriterFault); complete enumeration of the "
                 "failing sink / source call index k on real runs, each validated by TLC trace validation (Writer_Trace, LZ4Frame_Trace_C15)",
    "text": "For every (options, input, history) case the fault-free run fixes the number N of calls on the underlying writer; every k in "
            "1..N (N <= 64; otherwise the first and last 16 and 32 sampled) is made to fail and the recorded run must be a behaviour "
            "of Writer.tla: the injected error is returned by the call during which it happened (sequential) or by a later call, at the "
            "latest Close (concurrent), nothing reaches the sink afterwards and the sink holds a prefix of the fault-free bytes. "
            "For the Reader every k-th source call fails under six fragmentation patterns (single bytes, 2/3/5 chunks, zero-length "
            "reads, data together with io.EOF): the injected error - never a clean end - is returned with a prefix of the content, "
            "and without a fault every pattern delivers exactly the content.",
    "design_ref": "DESIGN.md section 5 (C15)",
    "note": "The failing call fails from k on (so 'what reached the sink before' is everything in the sink).",
}

CHECKS["C16"] = {
    "technique": "TLA+ Reader window model (Reader.tla: BlockDone / Trim) model-checked with the real constants over all block-size "
                 "plans (MC_LinkedPlans) and at W = 4 over all sequences (MC_ReaderWindow); TLC-enumerated plans are encoded by an "
                 "independent encoder and read by the real Reader; the recorded per-block window lengths (verif hook) and Read calls are "
                 "validated by TLC (Reader_Trace, LZ4Frame_Trace_C16)",
    "text": "TLC proves for every plan of up to 3 blocks over ten size classes (and for every sequence at small scale) that the Reader's "
            "history window keeps at least min(64 KiB, bytes decoded) bytes, i.e. that every legal offset stays resolvable across "
            "any number of blocks, and exports the plans; each plan x kind (stored, literal, matches 1 back / 65535 back / into the "
            "previous block / straddling the boundary) is encoded by ref.EncodeFrame, read with concurrency 1 and 4 (silent "
            "fall-back), through Read buffer sequences and WriteTo. The trace must show the model's window length after every block "
            "and deliver exactly the content; tiny plans are decoded by TLC itself, which also validates the encoder.",
    "design_ref": "DESIGN.md section 5 (C16)",
    "note": "Supplement: Apalache discharges the inductive window invariant (ReaderWindowInd.tla) for every block-size sequence with the real constants; "
            "a frame of 1026 dependent 4 MiB blocks (4 GiB + 8 MiB) is generated on the fly and decoded (the Reader's 32-bit counters wrap).",
}

CHECKS["C18"] = {
    "technique": "TLA+ model of the compressing reader (CompressingReader.tla: overflow writer and lifecycle over piece lengths) "
                 "model-checked over all short read-size sequences; recorded Read calls and the overflow bookkeeping (verif accessor) "
                 "validated by TLC (CompressingReader_Trace); the concatenated output judged by LZ4Frame_Trace (ParseStrict)",
    "text": "MC_CompressingReader proves for every sequence of up to five read sizes against five piece layouts that each call returns "
            "at most len(p) bytes, makes progress when len(p) > 0, that produced bytes are delivered exactly once in order, io.EOF comes "
            "only when everything was delivered and a source error ends the stream. On the real object, every recorded call (len(p), n, "
            "error class, state, bytes waiting in the overflow buffer) must be the model's for the piece layout of that very frame, under "
            "fixed, layout-derived and seeded read patterns, short-reading and failing sources; the concatenated output must be one "
            "strictly valid frame with the applied options that decodes to the source.",
    "design_ref": "DESIGN.md section 5 (C18)",
    "note": "Piece layout is derived from the reference parser's view of a probe run of the same input and options.",
}

CHECKS["C20"] = {
    "technique": "TLA+ mapping specification of the command line (Lz4c.tla: flag vector -> Writer options -> descriptor, file effects); "
                 "TLC enumerates all 160 flag vectors; recorded runs of the real binary are validated by TLC (Lz4c_Trace: RunOK)",
    "text": "The lz4c binary is built from /repo/cmd/lz4c against /repo's library. For every flag vector (from TLC) x file/stdio operation "
            "x input size classes x permission modes it compresses and uncompresses; TLC's RunOK recomputes from the flags what the frame "
            "must show (FLG/BD bytes: block size, block checksum, stream checksum polarity) and requires exit status 0, a strictly valid "
            "frame decoding to the file, byte identity with the library Writer under the model's options (how -l is observed), and "
            "restoration of bytes and permission bits. The TLA+ content is a finite mapping table; the weight is in the harness.",
    "design_ref": "DESIGN.md section 5 (C20)",
    "note": "Runs with umask 0 in fresh directories; the stale prebuilt /repo/cmd/lz4c/lz4c binary is never executed.",
}

CHECKS["C08"] = {
    "technique": "TLA+ models of the concurrent Writer and Reader pipelines with Go channel semantics and buffer ownership (PipelineW.tla, "
                 "PipelineWL.tla for several lives of one Writer, PipelineR.tla), model-checked over all interleavings (safety, deadlock, liveness); hook-event traces of real runs under "
                 "seeded schedule perturbation validated by TLC (PipelineW_Trace, PipelineR_Trace); race detector, pool poisoning, goroutine "
                 "scan and watchdog as sensors judged by the trace specifications",
    "text": "TLC explores every interleaving of producer, per-block workers and ordering goroutine (Writer) and of reader, decoders, "
            "collector and consumer (Reader) for the tier's block counts, queue capacities and failure positions: blocks reach the "
            "sink / consumer in submission order, no buffer is used after it went back to the pool, Close flushes everything, no "
            "goroutine is left blocked, no deadlock, termination under weak fairness. Real concurrent runs (harness built with -race, "
            "hooks before every send/close and after every receive under one global order, seeded perturbation, poisoned pools) must be "
            "behaviours of these models - FIFO discipline, write/delivery order, shutdown handshake, buffers returned only after the "
            "orderer closed the block - and their sensors must be silent: no race, no poisoned-buffer write, no goroutine left after "
            "Close / end of stream / source or decoding error, no hang, correct result.",
    "design_ref": "DESIGN.md section 5 (C08), 12.2, 12.9",
    "note": "The code's schedules are sampled, the model's are exhaustive; TLC schedules of failure-free behaviours are forced onto the "
            "goroutines through the blocking hook (gate replay); D25 (goroutine leak) was first a TLC counterexample.",
}
