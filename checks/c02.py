"""C02 - frame round trip under every option combination, chunking and entry point.

 spec:  Writer.tla, Reader.tla, LZ4Frame.tla
 MC:    MC_Writer (all call sequences <= 4 calls at B = 4: conservation, block cutting independent of the partition,
        one header, complete frame after Close), exported as histories
 gen:   TLC's histories of the shape (Write | Flush)* Close and ReadFrom Close, concretised per block size (length
        classes 0, 1, B/2+5, B-1 around multiples of B), x option vectors x reader configurations
        (concurrency 1/2/4/GOMAXPROCS; Read with buffer-size sequences below and above the block size; WriteTo)
 val:   Writer_Trace (calls, sink-call pattern, final block lengths), LZ4Frame_Trace_C09 (the emitted frame is strictly
        valid and decodes to the input), Reader_Trace (every Read call's count/error, EOF exactly at the end, EOF again
        without touching the source, delivered = input)
"""
import json
import os
import random

import vlib
from checks import framelib as fl


def histories_from_tlc(cases):
    """keep the TLC histories that are deliveries of one stream: (write|flush)* close, readfrom (write|flush)* close"""
    out = set()
    for h in cases:
        ops = []
        ok = True
        for i, c in enumerate(h["calls"]):
            if c["op"] in ("reset", "apply") or (c["op"] == "readfrom" and i > 0):
                ok = False
                break
            ops.append((c["op"], c["n"]))
            if c["op"] == "close":
                break
        if not ok:
            continue
        if ops[-1][0] != "close":
            ops.append(("close", 0))
        if ops[0][0] == "readfrom":
            ops = [ops[0], ("close", 0)]          # C02: "or a single ReadFrom"
        out.add(tuple(ops))
    return sorted(out)


def reader_cfgs(rnd, B, n, total):
    """n reader configurations; buffer sizes keep the number of Read calls moderate"""
    small = [b for b in (1, 7, 4096) if total // b <= 150]
    pool = small + [B - 1, B, B + 1, 3 * B, max(1, total // 3 + 1)]
    out = []
    for i in range(n):
        conc = [1, 2, 4, 0][(i + rnd.randrange(4)) % 4]
        if i % 3 == 2:
            out.append({"conc": conc, "mode": "writeto", "extra": 2})
        else:
            k = rnd.randrange(1, 4)
            out.append({"conc": conc, "mode": "read", "bufs": [rnd.choice(pool) for _ in range(k)], "extra": 2})
    return out


def run(ctx):
    q = ctx.tier == "quick"
    ctx.rule = ("every TLC history of the shape (Write|Flush)* Close / ReadFrom ... Close with <= 4 calls (write sizes in classes around "
                "multiples of the block size) x seeded option vectors x reader configurations (concurrency, Read buffer sequences on both "
                "sides of the block size, WriteTo); distinct = distinct (history, options, input family, reader configuration)")
    b = vlib.build_harness()
    d = vlib.scratch("c02")
    m = ctx.mc("MC_Writer", cfg="MC_Writer_gen", want_cases=True, timeout=900)
    hs = histories_from_tlc(m.cases)
    if len(hs) < 50:
        raise vlib.MachineryFault("only %d usable histories from MC_Writer" % len(hs))
    ctx.mc("MC_LZ4Frame", timeout=900)
    rnd = random.Random(ctx.seed * 101 + 2)
    vecs = fl.opt_vectors(rnd, 40 if q else 400, legacy_share=0.06)
    files = os.path.join(d, "frames")
    os.makedirs(files)
    wcases = []
    per_hist = 1 if q else 6
    for hi, h in enumerate(hs):
        for k in range(per_hist):
            o = dict(vecs[(hi * per_hist + k) % len(vecs)])
            # large blocks are expensive: mostly 64 KiB and 256 KiB, the others on a share of the histories
            if (o["legacy"] or o["code"] >= 6) and (hi + k) % (9 if q else 4):
                o["code"], o["legacy"] = 4 + (hi % 2), False
            B = fl.block_of(o)
            calls, total = fl.concretise([{"op": op, "n": n} for op, n in h], B)
            if total > 3 * B + 8:
                continue
            fam = rnd.choice(["text", "random", "blockmix", "zeros", "mixed"])
            if o["level"] > 2 and total > 100000 and fam in ("zeros", "mixed"):
                fam = "text"
            if o["legacy"] and fam in ("random", "blockmix"):
                fam = "text"      # an incompressible 8 MiB legacy block is C09's known finding (raw legacy block)
            inp = {"family": fam, "len": total, "seed": rnd.randrange(1 << 30), "p1": B if fam == "blockmix" else rnd.randrange(1, 9)}
            if o.get("size") == -1:
                o["size"] = total
            if not o.get("size"):
                o.pop("size", None)
            cid = len(wcases) + 1
            wcases.append({"id": cid, "input": inp, "opts": o, "calls": calls, "save": os.path.join(files, "%d.lz4" % cid),
                           "noflush": not any(c["op"] == "flush" for c in calls), "hist": hi})
    # Flush-cut blocks arranged so that the size word of block k equals the number of bytes decoded before it (the value the
    # legacy "total size" trailer would have): probe the stored size of a second block, then put exactly that many bytes
    # in front of it.  Also with two blocks in front.
    second = [[97, 98, 99] + [99] * 12 + [118, 119, 120, 121, 122],
              [ord(ch) for ch in "the quick brown fox jumps over the lazy dog; the quick brown fox jumps over the lazy dog again."],
              [7] * 700 + list(range(40)), [1, 2, 3, 4] * 300 + [9, 8, 7, 6, 5]]
    for lvl in (0, 3):
        po = {"code": 4, "bcs": False, "ccs": True, "level": lvl, "conc": 1, "legacy": False, "handler": False}
        probes = [{"id": i + 1, "input": {"family": "bytes", "len": len(x), "seed": 0, "bytes": x}, "opts": po,
                   "calls": [{"op": "write", "n": len(x)}, {"op": "close"}]} for i, x in enumerate(second)]
        pr, _ = fl.shard_run(b, "frame-write", probes, d, "cumprobe", nshards=1)
        for i, x in enumerate(second):
            blk = pr[i + 1]["frames"][0]["blocks"][0]
            if blk["raw"] or blk["size"] < 2:
                continue
            S = blk["size"]
            r2 = random.Random(S * 31 + i)
            for front in ([S], [S // 2, S - S // 2]):
                data = [r2.randrange(256) for _ in range(S)] + x
                calls = []
                for nf in front:
                    calls += [{"op": "write", "n": nf}, {"op": "flush"}]
                calls += [{"op": "write", "n": len(x)}, {"op": "close"}]
                for ccs in (True, False):
                    cid = len(wcases) + 1
                    wcases.append({"id": cid, "input": {"family": "bytes", "len": len(data), "seed": 0, "bytes": data},
                                   "opts": dict(po, ccs=ccs), "calls": calls, "save": os.path.join(files, "%d.lz4" % cid), "noflush": False, "hist": -1})
    # a legacy frame with an incompressible 8 MiB block (the one block the legacy Writer stores instead of compressing; how
    # it marks it is C09's known finding - here only the round trip through the package's own Reader is judged)
    cid = len(wcases) + 1
    wcases.append({"id": cid, "input": {"family": "random", "len": fl.LEGACY_BLOCK + 5, "seed": 8, "p1": 1},
                   "opts": {"code": 7, "bcs": False, "ccs": False, "level": 0, "conc": 1, "legacy": True, "handler": False},
                   "calls": [{"op": "write", "n": fl.LEGACY_BLOCK + 5}, {"op": "close"}], "save": os.path.join(files, "%d.lz4" % cid), "noflush": True, "hist": -2})
    wrecs, faults = fl.shard_run(b, "frame-write", wcases, d, "w")
    if faults:
        raise vlib.MachineryFault("frame-write failed: %s" % faults[0]["stderr"][-800:])
    ctx.evaluations += len(wrecs)
    wruns = [wrecs[c["id"]] for c in wcases if c["hist"] != -2]      # (the legacy raw block is C09's known finding: Reader side only)
    by_w = {c["id"]: c for c in wcases}

    # the Writer side: model binding and validity of what was emitted
    for rj in fl.validate_writer_runs(ctx, wruns, d):
        rec = json.loads(rj["line"])
        confirm_write(ctx, b, d, by_w[rec["case"]], "C02:writer-model:%s:%s" % (rec.get("op", rec["ev"]), rec.get("err", rec.get("status"))))
    tp = os.path.join(d, "emit.ndjson")
    with open(tp, "w") as f:
        for c in wcases:
            f.write(json.dumps(fl.emit_events(wrecs[c["id"]], c["noflush"]), separators=(",", ":")) + "\n")
    acc, rej = vlib.validate_trace(ctx, "LZ4Frame_Trace", tp, cfg="LZ4Frame_Trace_C09", timeout=1800, max_reject=4)
    for rj in rej:
        rec = json.loads(rj["line"])
        w = wrecs[rec["case"]]
        f0 = w["frames"][0]
        if w["opts"]["legacy"] and f0["status"] == "block_too_big":
            continue        # C09's known finding (raw legacy block); C02 judges the Reader's view below
        confirm_write(ctx, b, d, by_w[rec["case"]], "C02:emitted-frame:%s:same=%s" % (f0["status"], f0.get("same")))

    # the Reader side
    rcases = []
    for c in wcases:
        B = fl.block_of(c["opts"])
        cfgs = reader_cfgs(rnd, B, 2 if q else 4, c["input"]["len"])
        if c["hist"] == -2:
            cfgs = [{"conc": 1, "mode": "writeto", "extra": 1}, {"conc": 4, "mode": "read", "bufs": [1 << 20], "extra": 1}]
        if c["hist"] == -1:
            cfgs = [{"conc": 1, "mode": "read", "bufs": [4096], "extra": 2}, {"conc": 1, "mode": "writeto", "extra": 2},
                    {"conc": 1, "mode": "read", "bufs": [7], "extra": 2}, {"conc": 4, "mode": "read", "bufs": [B], "extra": 2}]
        for cfg in cfgs:
            rid = len(rcases) + 1
            rcases.append({"id": rid, "chunks": [{"file": c["save"]}], "cfg": cfg, "content": c["input"], "w": c["id"]})
    rrecs, faults = fl.shard_run(b, "frame-read", rcases, d, "r", extra=("--watchdog", "120s"))
    if faults:
        raise vlib.MachineryFault("frame-read failed: %s" % faults[0]["stderr"][-800:])
    ctx.evaluations += len(rrecs)
    ctx.distinct += len({(by_w[c["w"]]["hist"], json.dumps(by_w[c["w"]]["opts"], sort_keys=True), by_w[c["w"]]["input"]["family"],
                          json.dumps(c["cfg"], sort_keys=True)) for c in rcases})
    tp = os.path.join(d, "rtrace.ndjson")
    by_r = {c["id"]: c for c in rcases}
    with open(tp, "w") as f:
        for c in rcases:
            r = rrecs.get(c["id"])
            if r is None:
                raise vlib.MachineryFault("no record for read case %d (hang in its batch?)" % c["id"])
            w = wrecs[c["w"]]
            r["sameAsInput"] = r["deliveredSha"] == w["inputSha"] and r["deliveredLen"] == w["inputLen"]
            for e in fl.reader_events(r, w["inputLen"]):
                f.write(json.dumps(e, separators=(",", ":")) + "\n")
    acc, rej = vlib.validate_trace(ctx, "Reader_Trace", tp, timeout=1800, max_reject=4)
    ctx.sample({"writer_history": wcases[3]["calls"], "options": wcases[3]["opts"], "reader_cfg": rcases[6]["cfg"],
                "reader_events": fl.reader_events(rrecs[rcases[6]["id"]], wrecs[rcases[6]["w"]]["inputLen"])[:6]})
    for rj in rej:
        rec = json.loads(rj["line"])
        c = by_r[rec["case"]]
        r = rrecs[c["id"]]
        key = "C02:reader:%s:conc=%s:%s:outcome=%s/%s:same=%s" % (
            c["cfg"]["mode"], "1" if c["cfg"]["conc"] == 1 else ">1",
            "buf>=block" if any(x >= fl.block_of(by_w[c["w"]]["opts"]) for x in c["cfg"].get("bufs", [])) else "buf<block",
            r["outcome"], r["err"], r["sameAsInput"])
        if any(v[0] == key for v in ctx.violations):
            continue
        # re-execute: write again, read again, validate again
        w = by_w[c["w"]]
        # (the frame of a concurrent Writer, or the run of a concurrent Reader, may depend on the schedule: several attempts)
        for attempt in range(20 if (w["opts"].get("conc", 1) != 1 or c["cfg"]["conc"] != 1) else 2):
            wr, _ = fl.shard_run(b, "frame-write", [w], d, "again-w", nshards=1)
            rr, _ = fl.shard_run(b, "frame-read", [c], d, "again-r", nshards=1, extra=("--watchdog", "120s"))
            r2 = rr[c["id"]]
            r2["sameAsInput"] = r2["deliveredSha"] == wr[w["id"]]["inputSha"] and r2["deliveredLen"] == wr[w["id"]]["inputLen"]
            t2 = os.path.join(d, "again.ndjson")
            vlib.write_ndjson(t2, fl.reader_events(r2, wr[w["id"]]["inputLen"]))
            sub = vlib.Ctx(ctx.prop, ctx.tier, ctx.seed)
            a2, rej2 = vlib.validate_trace(sub, "Reader_Trace", t2, shards=1)
            if rej2:
                break
        if not rej2:
            ctx.unreproducible("reader rejection not reproducible: %s" % rj["line"][:300])
            continue
        slim = {k: v for k, v in r2.items() if k not in ("bytes", "delivered", "content", "log")}
        ctx.violation(key, "round trip through the Reader fails: %s" % key,
                      {"kind": "c02-read", "write_case": {k: v for k, v in w.items() if k != "save"}, "read_case": {"cfg": c["cfg"]},
                       "observed": slim, "rejected_event": json.loads(rej2[0]["line"])})
    composed_sources(ctx, b, d, rnd, wcases, wrecs)
    ctx.assumptions += ["inputs up to 3 blocks + 8 bytes; 1 MiB / 4 MiB / legacy 8 MiB blocks on a share of the histories"]


def composed_sources(ctx, b, d, rnd, wcases, wrecs):
    """Sources made of several pieces around the Writer's frames: skippable frames first, concatenated legacy frames,
    a kernel-style trailer, bytes after the frame.  Judged by LZ4Frame_Trace_C02 (CompleteOK)."""
    q = ctx.tier == "quick"
    small = [c for c in wcases if wrecs[c["id"]]["sinkLen"] <= 200000 and wrecs[c["id"]]["frames"][0]["status"] == "ok"]
    modern = [c for c in small if not c["opts"]["legacy"]]
    legacy = [c for c in small if c["opts"]["legacy"]]
    cases = []

    def add(chunks, what):
        conc = rnd.choice([1, 1, 2, 4])
        cfg = {"conc": conc, "mode": rnd.choice(["read", "writeto"]), "bufs": [rnd.choice([7, 4096, 70000, 300000])]}
        cases.append({"id": len(cases) + 1, "chunks": chunks, "cfg": cfg, "tag": {"what": what}})

    def skip(n):
        return {"bytes": [0x50 + rnd.randrange(16), 0x2A, 0x4D, 0x18, n & 255, (n >> 8) & 255, 0, 0] + [rnd.randrange(256) for _ in range(n)]}
    for c in rnd.sample(modern, min(len(modern), 25 if q else 300)):
        f = {"file": c["save"]}
        add([skip(rnd.choice([0, 1, 7, 300]))] + [f], "skip+frame")
        add([skip(0), skip(5), skip(rnd.choice([0, 64]))] + [f], "skip*3+frame")
        add([f, {"bytes": [rnd.randrange(256) for _ in range(rnd.choice([1, 4, 9, 40]))]}], "frame+trailing")
        add([f, f], "frame+frame")
    for c in rnd.sample(legacy, min(len(legacy), 6 if q else 60)):
        f = {"file": c["save"]}
        n = c["input"]["len"]
        add([f, f], "legacy+legacy")
        if n:
            add([f, {"bytes": [n & 255, (n >> 8) & 255, (n >> 16) & 255, (n >> 24) & 255]}], "legacy+kernel-trailer")
        add([skip(3), f], "skip+legacy")
    if not cases:
        return
    recs, faults = fl.shard_run(b, "frame-read", cases, d, "comp", extra=("--watchdog", "120s"))
    if faults:
        raise vlib.MachineryFault("frame-read failed: %s" % faults[0]["stderr"][-800:])
    ctx.evaluations += len(recs)
    tp = os.path.join(d, "composed.ndjson")
    with open(tp, "w") as f:
        for c in cases:
            e = dict(recs[c["id"]])
            for x in ("errtext", "log", "cfg", "tag", "extraErr"):
                e.pop(x, None)
            f.write(json.dumps(e, separators=(",", ":")) + "\n")
    acc, rej = vlib.validate_trace(ctx, "LZ4Frame_Trace", tp, cfg="LZ4Frame_Trace_C02", timeout=1800, max_reject=4)
    by = {c["id"]: c for c in cases}
    for rj in rej:
        rec = json.loads(rj["line"])
        c = by[rec["case"]]
        key = "C02:composed:%s:%s:conc=%s:outcome=%s/%s" % (c["tag"]["what"], c["cfg"]["mode"], "1" if c["cfg"]["conc"] == 1 else ">1", rec["outcome"], rec["err"])
        if any(v[0] == key for v in ctx.violations):
            continue
        rr, _ = fl.shard_run(b, "frame-read", [c], d, "comp-again", nshards=1, extra=("--watchdog", "120s"))
        e = dict(rr[c["id"]])
        for x in ("errtext", "log", "cfg", "tag", "extraErr"):
            e.pop(x, None)
        t2 = os.path.join(d, "comp-again.ndjson")
        vlib.write_ndjson(t2, [e])
        sub = vlib.Ctx(ctx.prop, ctx.tier, ctx.seed)
        a2, rej2 = vlib.validate_trace(sub, "LZ4Frame_Trace", t2, cfg="LZ4Frame_Trace_C02", shards=1)
        if not rej2:
            ctx.unreproducible("%s" % key)
            continue
        obs = {k: v for k, v in e.items() if k not in ("bytes", "delivered", "content")}
        ctx.violation(key, "a source the frame specification accepts is not read as it defines: %s" % key,
                      {"kind": "c02-composed", "case": {"cfg": c["cfg"], "tag": c["tag"]}, "observed": obs})


def confirm_write(ctx, b, d, case, key):
    if any(v[0] == key for v in ctx.violations):
        return
    # a concurrent Writer's deviation may depend on the schedule: try again several times
    for attempt in range(20 if case["opts"].get("conc", 1) != 1 else 2):
        recs, faults = fl.shard_run(b, "frame-write", [case], d, "again", nshards=1)
        w = recs[case["id"]]
        sub = vlib.Ctx(ctx.prop, ctx.tier, ctx.seed)
        rej = fl.validate_writer_runs(sub, [w], d)
        tp = os.path.join(d, "again-emit.ndjson")
        vlib.write_ndjson(tp, [fl.emit_events(w, case["noflush"])])
        acc, rej2 = vlib.validate_trace(sub, "LZ4Frame_Trace", tp, cfg="LZ4Frame_Trace_C09", shards=1)
        if rej or rej2:
            break
    if not rej and not rej2:
        ctx.unreproducible("rejection not reproducible for case %s" % json.dumps(case)[:300])
        return
    slim = json.loads(json.dumps(w))
    for fr in slim["frames"]:
        fr["blocks"] = fr["blocks"][:8]
    slim["sinkCalls"] = slim["sinkCalls"][:40]
    for k in ("bytes", "input"):
        slim.pop(k, None)
    ctx.violation(key, "Writer run is not a behaviour of the model / frame not valid: %s" % key,
                  {"kind": "c02-write", "case": {k: v for k, v in case.items() if k != "save"}, "observed": slim})


def replay(ctx, path):
    rp = json.load(open(path))
    b = vlib.build_harness()
    d = vlib.scratch("c02r")
    if rp["kind"] == "c02-write":
        case = rp["case"]
        recs, _ = fl.shard_run(b, "frame-write", [case], d, "again", nshards=1)
        w = recs[case["id"]]
        rej = fl.validate_writer_runs(ctx, [w], d)
        tp = os.path.join(d, "emit.ndjson")
        vlib.write_ndjson(tp, [fl.emit_events(w, case.get("noflush", True))])
        acc, rej2 = vlib.validate_trace(ctx, "LZ4Frame_Trace", tp, cfg="LZ4Frame_Trace_C09", shards=1)
        bad = bool(rej or rej2)
    else:
        w = dict(rp["write_case"], save=os.path.join(d, "f.lz4"))
        wr, _ = fl.shard_run(b, "frame-write", [w], d, "w", nshards=1)
        c = {"id": 1, "chunks": [{"file": w["save"]}], "cfg": rp["read_case"]["cfg"], "content": w["input"]}
        rr, _ = fl.shard_run(b, "frame-read", [c], d, "r", nshards=1, extra=("--watchdog", "120s"))
        r2 = rr[1]
        r2["sameAsInput"] = r2["deliveredSha"] == wr[w["id"]]["inputSha"] and r2["deliveredLen"] == wr[w["id"]]["inputLen"]
        t2 = os.path.join(d, "t.ndjson")
        vlib.write_ndjson(t2, fl.reader_events(r2, wr[w["id"]]["inputLen"]))
        a2, rej2 = vlib.validate_trace(ctx, "Reader_Trace", t2, shards=1)
        bad = bool(rej2)
    if bad:
        print("VIOLATION property=C02 replay=%s" % path)
        return 1
    print("replay: deviation not observed")
    return 0


def selftest(ctx):
    b = vlib.build_harness()
    d = vlib.scratch("c02s")
    w = {"id": 1, "input": {"family": "text", "len": 70000, "seed": 5}, "noflush": True, "save": os.path.join(d, "f.lz4"),
         "opts": {"code": 4, "bcs": False, "ccs": True, "level": 0, "conc": 1, "legacy": False, "handler": False},
         "calls": [{"op": "write", "n": 70000}, {"op": "close"}]}
    wr, _ = fl.shard_run(b, "frame-write", [w], d, "w", nshards=1)
    c = {"id": 1, "chunks": [{"file": w["save"]}], "cfg": {"conc": 1, "mode": "read", "bufs": [30000], "extra": 2}, "content": w["input"]}
    rr, _ = fl.shard_run(b, "frame-read", [c], d, "r", nshards=1)
    r = rr[1]
    r["sameAsInput"] = True
    ev = fl.reader_events(r, 70000)
    bad = json.loads(json.dumps(ev))
    bad[2]["n"] -= 1                    # a short read that the model does not allow
    for name, e, want in (("good", ev, 0), ("bad", bad, 1)):
        tp = os.path.join(d, name + ".ndjson")
        vlib.write_ndjson(tp, e)
        acc, rej = vlib.validate_trace(ctx, "Reader_Trace", tp, shards=1)
        if len(rej) != want:
            raise vlib.MachineryFault("selftest C02: %s trace gave %d rejections" % (name, len(rej)))
    print("selftest C02 ok")
    return 0
