"""C14 - compression is deterministic: output depends only on input and settings.

Block level: checks/blockcmp.py (BlockAPI memo over TLC-generated API histories, pooled compressors from 4 goroutines).
Frame level (below): for each (input, options) the Writer is run with every concurrency level, under seeded schedule
perturbation with poisoned pools (hooks of C08), and with the input split into Write calls in many ways - the
partitions TLC enumerates in MC_Writer (Write-only histories) and B+-1 / single-byte / seeded ones; all members of a
group must emit byte-identical frames (BlockAPI_Trace event `frame`: memo consistency on the key (input, options)).
"""
import json
import os
import random

import vlib
from checks import blockcmp, framelib as fl


def partitions_from_tlc(cases):
    out = set()
    for h in cases:
        ops = [(c["op"], c["n"]) for c in h["calls"]]
        if all(o == "write" for o, _ in ops):
            out.add(tuple(n for _, n in ops))
    return sorted(out)


def run(ctx):
    blockcmp.run(ctx, "C14")
    q = ctx.tier == "quick"
    b = vlib.build_harness()
    d = vlib.scratch("c14f")
    rnd = random.Random(ctx.seed * 71 + 14)
    m = ctx.mc("MC_Writer", cfg="MC_Writer_gen", want_cases=True, timeout=900)
    parts = partitions_from_tlc(m.cases)
    B = 65536
    groups = []
    for gi in range(12 if q else 150):
        o = {"code": 4, "bcs": gi % 2 == 0, "ccs": gi % 3 != 0, "level": [0, 0, 1, 9, 3][gi % 5], "legacy": False, "handler": gi % 4 == 0}
        part = parts[(gi * 7 + ctx.seed) % len(parts)]
        sizes = [(n // 4) * B + fl.g(n % 4, B) for n in part]
        total = sum(sizes) or rnd.choice([1, 100, B + 1])
        if not sum(sizes):
            sizes = [total]
        inp = {"family": rnd.choice(["text", "blockmix", "mixed", "random"]), "len": total, "seed": gi, "p1": B}
        if o["level"] > 2 and inp["family"] == "mixed":
            inp["family"] = "text"
        members = [([total], 1, 0)]                                   # canonical: one Write, sequential
        for conc in (1, 2, 4, 16):
            members.append(([total], conc, 40))
            members.append((sizes, conc, rnd.choice([0, 10, 80])))
        pieces, left = [], total
        while left > 0:                                               # B +- 1 pieces
            n = min(left, rnd.choice([B - 1, B + 1, 1, B // 2, 3 * B]))
            pieces.append(n)
            left -= n
        members.append((pieces, 1, 0))
        members.append((pieces, 4, 40))
        if total <= 3000:
            members.append(([1] * total, 1, 0))
            members.append(([1] * total, 2, 10))
        groups.append((gi, o, inp, members, None))
    # consecutive blocks stored differently (raw, compressed, zeros in each rotation): the sequential Writer reuses one block
    # object, the concurrent one makes a new one per block - the frames must not differ
    for seed in (0, 1, 2):
        gi = len(groups)
        o = {"code": 4, "bcs": seed % 2 == 0, "ccs": True, "level": [0, 3, 1][seed], "legacy": False, "handler": False}
        total = 4 * B + 11
        inp = {"family": "blockmix", "len": total, "seed": seed, "p1": B}
        members = [([total], 1, 0)] + [([total], conc, p) for conc, p in ((2, 0), (4, 40), (16, 10))] + [([B, B + 5, total - 2 * B - 5], 1, 0), ([B - 1, total - B + 1], 4, 10)]
        groups.append((gi, o, inp, members, None))
    # legacy frames with a block beyond 4 MiB that does not compress (its stored form is larger than 4 MiB): the sequential
    # and the concurrent Writer must size their block buffers alike
    for seed, fam in ((0, "random"),) if q else ((0, "random"), (1, "random"), (2, "lowentropy")):
        gi = len(groups)
        o = {"code": 7, "bcs": False, "ccs": False, "level": 0, "legacy": True, "handler": False}
        total = 5 * (1 << 20) + 3 + seed
        inp = {"family": fam, "len": total, "seed": 900 + seed, "p1": 3}
        members = [([total], 1, 0), ([total], 2, 0), ([total], 4, 10), ([1 << 20, total - (1 << 20)], 1, 0)]
        groups.append((gi, o, inp, members, None))
    # ReadFrom: the same stream from sources that hand their bytes over differently (whole, in pieces, the last bytes together
    # with io.EOF, with empty reads in between) - lengths that are and are not multiples of the block size
    for total in (B, 2 * B, 3 * B + 5, 0):
        gi = len(groups)
        o = {"code": 4, "bcs": total % 2 == 0, "ccs": True, "level": 0, "legacy": False, "handler": False}
        inp = {"family": "text", "len": total, "seed": 600 + gi, "p1": B}
        members = [([("readfrom", 0, fr, ew)], conc, p) for fr, ew in (([], False), ([], True), ([B], True), ([4096], True), ([0, 7, 0, 100000], False), ([B // 2], True))
                   for conc, p in ((1, 0), (4, 10))]
        groups.append((gi, o, inp, members, "readfrom"))
    # fixed call sequences WITH Flush calls (an explicit block boundary): identical for every concurrency level and schedule
    for gi in range(len(groups), len(groups) + (8 if q else 80)):
        o = {"code": 4, "bcs": gi % 2 == 0, "ccs": True, "level": 0, "legacy": False, "handler": False}
        total = rnd.choice([B + 100, 2 * B + 7, 3 * B])
        inp = {"family": rnd.choice(["text", "blockmix"]), "len": total, "seed": gi, "p1": B}
        seq, left = [], total
        while left > 0:
            n = min(left, rnd.choice([100, B // 3, B - 1, B + 1]))
            seq.append(("write", n))
            left -= n
            if rnd.random() < 0.5:
                seq.append(("flush", 0))
        members = [(seq, c, p) for c, p in ((1, 0), (2, 0), (2, 40), (4, 10), (4, 80), (16, 40), (16, 0))]
        groups.append((gi, o, inp, members, "flush"))
    # a Writer that was used and Reset (with and without pending bytes) before: its next frame equals a fresh Writer's
    for gi in range(len(groups), len(groups) + (8 if q else 80)):
        o = {"code": 4, "bcs": False, "ccs": True, "level": 0, "legacy": False, "handler": False}
        total = rnd.choice([500, B + 100, 2 * B + 7])
        pre = rnd.choice([1, 100, B - 1, B + 5])
        inp = {"family": "text", "len": pre + total, "seed": gi, "p1": B}
        canon = [("write", pre), ("close", 0), ("reset", 0), ("write", total)]
        members = [(canon, 1, 0)]
        for conc in (1, 4):
            members.append(([("write", pre), ("reset", 0), ("write", total)], conc, 0))                  # Reset with pending bytes
            members.append(([("write", pre), ("flush", 0), ("reset", 0), ("write", total)], conc, 10))
            members.append(([("write", pre // 2 + 1), ("close", 0), ("reset", 0), ("write", pre - pre // 2 - 1), ("close", 0), ("reset", 0), ("write", total)], conc, 0))
        groups.append((gi, o, inp, members, "reuse"))
    cases = []
    for gi, o, inp, members, kind in groups:
        for sizes, conc, perturb in members:
            if kind is None:
                calls = [{"op": "write", "n": n} for n in sizes] + [{"op": "close"}]
            elif kind == "readfrom":
                calls = [{"op": "readfrom", "n": 0, "frag": fr, "eofw": ew} for _op, _n, fr, ew in sizes] + [{"op": "close"}]
            else:
                calls = [{"op": op, "n": n} if op == "write" else {"op": op} for op, n in sizes] + [{"op": "close"}]
            cases.append({"id": len(cases) + 1, "kind": "writer", "input": inp, "opts": dict(o, conc=conc), "calls": calls,
                          "seed": ctx.seed * 100 + len(cases), "perturb": perturb, "poison": True, "group": gi, "gkind": kind})
    recs, faults = fl.shard_run(b, "pipe-run", cases, d, "det", extra=("--watchdog", "120s"))
    if faults:
        raise vlib.MachineryFault("pipe-run failed: %s" % faults[0]["stderr"][-800:])
    ctx.evaluations += len(recs)
    ctx.distinct += len(cases)
    tp = os.path.join(d, "frames.ndjson")
    by_id = {c["id"]: c for c in cases}
    with open(tp, "w") as f:
        cur = None
        for c in cases:
            r = recs[c["id"]]
            if c["group"] != cur:
                cur = c["group"]
                f.write(json.dumps({"ev": "newcase", "case": "g%d" % cur}) + "\n")
            if c["gkind"] == "reuse":       # compare the frame of the Writer's last life only
                outid, ok = r.get("lastSegSha", "none"), bool(r.get("lastSegOK")) and not r["hung"]
            else:
                outid, ok = r["sinkSha"], r["status"] == "ok" and r["same"] and not r["hung"]
            f.write(json.dumps({"ev": "frame", "case": "g%d" % cur, "id": c["id"], "key": "g%d" % cur, "outid": outid, "ok": ok},
                               separators=(",", ":")) + "\n")
    ctx.sample({"frame_group_member": {k: v for k, v in cases[5].items() if k != "input"}, "sinkSha": recs[cases[5]["id"]]["sinkSha"]})
    acc, rej = vlib.validate_trace(ctx, "BlockAPI_Trace", tp, cfg="BlockAPI_Trace_C14", timeout=1800, max_reject=5)
    ctx.extra["frame_groups"] = len(groups)
    for rj in rej:
        rec = json.loads(rj["line"])
        c = by_id[rec["id"]]
        canon = next(x for x in cases if x["group"] == c["group"])
        key = "C14:frame:%s:conc=%s:%s:perturb=%s:ok=%s" % (c["gkind"] or "partition", "1" if c["opts"]["conc"] == 1 else ">1",
                                                           "one-write" if len(c["calls"]) == 2 else "several-calls", "yes" if c["perturb"] else "no", rec["ok"])
        if any(v[0] == key for v in ctx.violations):
            continue
        differs = False
        for attempt in range(10 if c["opts"]["conc"] != 1 else 1):
            rr, _ = fl.shard_run(b, "pipe-run", [canon, c], d, "again", nshards=1, extra=("--watchdog", "120s"))
            fld = "lastSegSha" if c["gkind"] == "reuse" else "sinkSha"
            bad = (not rr[c["id"]].get("lastSegOK")) if c["gkind"] == "reuse" else rr[c["id"]]["status"] != "ok"
            if rr[canon["id"]].get(fld) != rr[c["id"]].get(fld) or bad:
                differs = True
                break
        if not differs:
            ctx.unreproducible("%s: %s" % (key, rj["line"][:200]))
            continue
        ctx.violation(key, "the same input and options gave different frames: %s" % key,
                      {"kind": "c14-frame", "canonical": canon, "member": c,
                       "observed": {"canonical": rr[canon["id"]]["sinkSha"], "member": rr[c["id"]]["sinkSha"], "status": rr[c["id"]]["status"]}})


def replay(ctx, path):
    rp = json.load(open(path))
    if rp["kind"] != "c14-frame":
        return blockcmp.replay(ctx, "C14", path)
    b = vlib.build_harness()
    d = vlib.scratch("c14r")
    for attempt in range(10):
        rr, _ = fl.shard_run(b, "pipe-run", [rp["canonical"], rp["member"]], d, "again", nshards=1, extra=("--watchdog", "120s"))
        if rr[rp["canonical"]["id"]]["sinkSha"] != rr[rp["member"]["id"]]["sinkSha"]:
            print("VIOLATION property=C14 replay=%s" % path)
            return 1
    print("replay: deviation not observed")
    return 0


def selftest(ctx):
    return blockcmp.selftest(ctx, "C14")
