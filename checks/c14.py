"""C14 - see checks/blockcmp.py (shared block-compressor driver)."""
from checks import blockcmp


def run(ctx):
    blockcmp.run(ctx, "C14")


def replay(ctx, path):
    return blockcmp.replay(ctx, "C14", path)


def selftest(ctx):
    return blockcmp.selftest(ctx, "C14")
