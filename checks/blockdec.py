"""Shared driver of the block-decoder checks C03 (memory safety), C04 (format exactness)
and C12 (assembly/portable equivalence).

 spec:  LZ4Block.tla (Decode: total classification of every byte string)
 MC:    MC_LZ4Block    the grammar as a state machine; Decode o Serialize, prefixes, lemma DecodeBySeqs
 gen:   Gen_LZ4Block   class product of one/two-sequence blocks x dictionary x destination size, and
                       blocks positioned 0..48 bytes from the end of src/dst; TLC attaches the expected result
 val:   LZ4Block_Trace seeded truncations / substitutions / splices / random blocks, executed by both
                       builds in two memory layouts (canaries with spare capacity; buffers ending at a
                       PROT_NONE page) and three destination pre-fills; TLC recomputes Decode for each
"""
import json
import os
import concurrent.futures as cf

import vlib

OBS = ("err", "n", "out", "panicked", "canary", "srcok", "dictok", "stable")


def safe(o, dst):
    return o["panicked"] == "" and o["canary"] and o["srcok"] and o["dictok"] and (o["err"] or 0 <= o["n"] <= dst)


def exact(o, c):
    k = c["kind"]
    if not o["stable"]:
        return False
    if k == "ok":
        return (not o["err"]) and o["n"] == len(c["out"]) and o["out"] == c["out"]
    if k in ("zero_offset", "before_dict", "truncated", "overflow"):
        return o["err"]
    return True


def same(a, p):
    return a["err"] == p["err"] and (a["err"] or (a["n"] == p["n"] and a["out"] == p["out"])) and \
        ((a["panicked"] == "") == (p["panicked"] == ""))


def failure_key(prop, c, a, p):
    """A stable, specific description of how a case fails (known-finding key)."""
    parts = []
    for name, o in (("asm", a), ("portable", p)):
        if prop in ("C03", "C12") and not safe(o, c["dstLen"]):
            if o["panicked"]:
                parts.append(name + ":panic-or-fault")
            elif not (o["canary"] and o["srcok"] and o["dictok"]):
                parts.append(name + ":out-of-bounds-write")
            else:
                parts.append(name + ":n>len(dst)")
        if prop == "C04" and "kind" in c and not exact(o, c):
            parts.append("%s:%s:%s" % (name, c["kind"], "unstable" if not o["stable"] else ("accepted" if not o["err"] else "rejected")))
    if prop == "C12" and not same(a, p):
        parts.append("differ:asm=%s,portable=%s" % ("err" if a["err"] else "ok", "err" if p["err"] else "ok"))
    return prop + ":" + ";".join(parts)


DIED = {"err": True, "n": 0, "out": [], "panicked": "the process died while decoding this case (unrecoverable fault)",
        "canary": True, "srcok": True, "dictok": True, "stable": False, "sha": ""}


def run_cases(binaries, cases_path, d, tag):
    """Execute the cases on both builds (sharded).  A case that kills the process (a fault the runtime
    cannot turn into a panic) gets a synthetic observation saying so."""
    from checks import framelib as fl
    cases = vlib.read_ndjson(cases_path)
    for c in cases:
        c["case"] = c["id"]
    outs = []
    for name, b in binaries:
        recs, faults = fl.shard_run(b, "blk-run", cases, d, "%s-%s" % (tag, name), nshards=min(8, vlib.NCPU))
        for c in cases:
            if c["id"] not in recs:
                recs[c["id"]] = dict(DIED, case=c["id"])
        outs.append(recs)
    return outs


def joined(cases, ra, rp):
    for c in cases:
        a, p = ra[c["id"]], rp[c["id"]]
        yield c, {k: a[k] for k in OBS}, {k: p[k] for k in OBS}


def huge_lengths(ctx, prop, bins):
    """Length codes beyond 2^32 (16.9 MiB of 0xFF length bytes): LZ4Block!Decode says "more output than the destination
    holds" for every destination of the grid, so both decoders must return an error (and touch nothing behind len(dst))."""
    import subprocess
    obs = {}
    for name, b in bins:
        p = subprocess.run([b, "blk-huge", "0", "1", "100", "70000", "1048576"], stdout=subprocess.PIPE, stderr=subprocess.PIPE, text=True, timeout=600, env=vlib.GOENV)
        if p.returncode != 0:
            obs[name] = {"crashed": {"stderr": p.stderr[-1500:]}}
        else:
            obs[name] = json.loads(p.stdout.strip().splitlines()[-1])
        ctx.evaluations += 15
    ctx.distinct += 15
    for name, res in obs.items():
        for case, r in sorted(res.items()):
            bad = case == "crashed" or not r["err"] or r["panicked"] or not r["canary"] or r["n"] != 0
            if prop == "C12" and not bad:
                continue
            if not bad:
                continue
            key = "%s:huge-length:%s:%s:%s" % (prop, name, case.split("/")[0],
                                                "crash" if case == "crashed" else ("panic" if r["panicked"] else ("accepted" if not r["err"] else "memory")))
            ctx.violation(key, "a block whose length code exceeds 2^32 is not refused: %s" % key, {"kind": "huge", "decoder": name, "case": case, "observed": r})
    if prop == "C12" and all("crashed" not in v for v in obs.values()):
        a, pz = obs["asm"], obs["portable"]
        for case in a:
            if (a[case]["err"], a[case]["n"]) != (pz[case]["err"], pz[case]["n"]):
                ctx.violation("C12:huge-length:%s:differ" % case.split("/")[0], "assembly and portable decoders differ on a block with a length code beyond 2^32",
                              {"kind": "huge", "case": case, "asm": a[case], "portable": pz[case]})


def run(ctx, prop):
    q = ctx.tier == "quick"
    ctx.rule = ("gen: Gen_LZ4Block class product (literal-length x match-length x offset x dictionary-size x destination-size "
                "classes for 1- and 2-sequence blocks, and blocks positioned 0..48 bytes from the end of src/dst), exhaustive "
                "within the tier's class sets; val: seeded truncations (all cut points of blocks <= 40 bytes), byte "
                "substitutions, splices, destination-size changes and random blocks. Every case runs on the default build "
                "(amd64 assembly) and the noasm build, in 2 memory layouts x 3 destination pre-fills. distinct = distinct "
                "(src, dict, dstLen) triples that contain at least one match or a multi-byte length or are malformed")
    ba = vlib.build_harness()
    bp = vlib.build_harness(noasm=True)
    bins = (("asm", ba), ("portable", bp))
    d = vlib.scratch(prop.lower())

    # 1. design level: the block grammar machine
    ctx.mc("MC_LZ4Block", cfg="MC_LZ4Block_quick" if q else "MC_LZ4Block", timeout=1800)

    # 2. gen: TLC's cases with expectations
    r = ctx.mc("Gen_LZ4Block", cfg="Gen_LZ4Block_quick" if q else "Gen_LZ4Block", want_cases=True,
               workers=min(vlib.NCPU, 12), timeout=3000, heap="8g")
    cases = r.cases
    if len(cases) < 10000:
        raise vlib.MachineryFault("Gen_LZ4Block exported only %d cases" % len(cases))
    for i, c in enumerate(cases):
        c["id"] = i + 1
    cp = os.path.join(d, "gen.ndjson")
    vlib.write_ndjson(cp, cases)
    ra, rp = run_cases(bins, cp, d, "gen")
    ctx.evaluations += 12 * len(cases)
    ctx.exhaustive = True
    nontriv = set()
    bad = []
    for c, a, p in joined(cases, ra, rp):
        if c["kind"] != "ok" or len(c["params"]) > 3:
            nontriv.add((tuple(c["src"]), c["dict"]["len"], c["dstLen"]))
        ok = {"C03": safe(a, c["dstLen"]) and safe(p, c["dstLen"]),
              "C04": exact(a, c) and exact(p, c),
              "C12": same(a, p) and exact(a, c) and exact(p, c)}[prop]
        if not ok:
            bad.append((c, a, p))
    ctx.sample({"gen_case": {k: cases[7][k] for k in ("src", "dict", "dstLen", "kind", "params")},
                "observed_asm": {k: ra[8][k] for k in ("err", "n", "stable")}})
    confirm(ctx, prop, bins, d, bad, "gen")

    huge_lengths(ctx, prop, bins)

    # 3. a slice of the gen cases also goes through TLC trace validation (binding demonstration),
    #    and all seeded mutants do (TLC is their only oracle)
    mp = os.path.join(d, "mut.ndjson")
    vlib.harness(ba, "blk-mutate", "--cases", cp, "--out", mp, "--seed", ctx.seed, "--n", 24000 if q else 400000)
    muts = vlib.read_ndjson(mp)
    ma, mpo = run_cases(bins, mp, d, "mut")
    ctx.evaluations += 12 * len(muts)
    step = max(1, len(cases) // (3000 if q else 30000))
    sel = cases[::step]
    tp = os.path.join(d, "trace.ndjson")
    with open(tp, "w") as f:
        for src_cases, xa, xp in ((sel, ra, rp), (muts, ma, mpo)):
            for c, a, p in joined(src_cases, xa, xp):
                f.write(json.dumps({"ev": "decode", "case": c["id"], "src": c["src"], "dict": c["dict"],
                                    "dstLen": c["dstLen"], "a": a, "p": p}, separators=(",", ":")) + "\n")
    for m in muts:
        nontriv.add((tuple(m["src"]), m["dict"]["len"], m["dstLen"]))
    ctx.distinct += len(nontriv)
    acc, rej = vlib.validate_trace(ctx, "LZ4Block_Trace", tp, cfg="LZ4Block_Trace_" + prop, timeout=3000, max_reject=6)
    ctx.sample({"validated_record": json.loads(open(tp).readline())})
    by_id = {c["id"]: c for c in muts}
    by_id.update({c["id"]: c for c in sel})
    bad = []
    for rj in rej:
        rec = json.loads(rj["line"])
        bad.append((by_id[rec["case"]], rec["a"], rec["p"]))
    confirm(ctx, prop, bins, d, bad, "val")
    ctx.trusted += ["sensors: canary-filled arenas with spare capacity, buffers ending at a PROT_NONE page "
                    "(debug.SetPanicOnFault), recover()"]
    ctx.assumptions += ["amd64 assembly and portable decoders only (arm/arm64 assembly cannot run on this host)",
                        "blocks up to ~1.1 KiB at byte level; dictionaries up to 65535 bytes (pattern-defined)"]


def confirm(ctx, prop, bins, d, bad, origin):
    """Re-execute each deviating case on both builds and let TLC judge the fresh record;
    it is a violation only if the real code deviates again (the observation itself may
    differ between runs, e.g. bytes read from unrelated memory)."""
    seen = 0
    for c, a, p in bad:
        key = failure_key(prop, c, a, p)
        if any(v[0] == key for v in ctx.violations):
            continue
        seen += 1
        if seen > 25:
            break
        one = os.path.join(d, "one.ndjson")
        vlib.write_ndjson(one, [c])
        again = False
        for attempt in range(3):
            ra, rp = run_cases(bins, one, d, "one")
            a2 = {k: ra[c["id"]][k] for k in OBS}
            p2 = {k: rp[c["id"]][k] for k in OBS}
            tp = os.path.join(d, "one-trace.ndjson")
            vlib.write_ndjson(tp, [{"ev": "decode", "case": c["id"], "src": c["src"], "dict": c["dict"],
                                    "dstLen": c["dstLen"], "a": a2, "p": p2}])
            sub = vlib.Ctx(ctx.prop, ctx.tier, ctx.seed)
            acc, rej = vlib.validate_trace(sub, "LZ4Block_Trace", tp, cfg="LZ4Block_Trace_" + prop, shards=1)
            if rej:
                again = True
                break
        if not again:
            raise vlib.MachineryFault("deviation not reproducible for case %s" % json.dumps(c)[:300])
        ctx.violation(key, "block decode deviates (%s case): %s" % (origin, key),
                      {"kind": "blockdec", "property": prop, "case": c, "asm": a2, "portable": p2})


def replay(ctx, prop, path):
    rp_ = json.load(open(path))
    bins = (("asm", vlib.build_harness()), ("portable", vlib.build_harness(noasm=True)))
    d = vlib.scratch("rep")
    if rp_.get("kind") == "huge":
        sub = vlib.Ctx(ctx.prop, ctx.tier, ctx.seed)
        huge_lengths(sub, prop, bins)
        if sub.violations:
            print("VIOLATION property=%s replay=%s" % (ctx.prop, path))
            return 1
        print("replay: deviation not observed")
        return 0
    one = os.path.join(d, "one.ndjson")
    c = rp_["case"]
    vlib.write_ndjson(one, [c])
    ra, rp = run_cases(bins, one, d, "one")
    a = {k: ra[c["id"]][k] for k in OBS}
    p = {k: rp[c["id"]][k] for k in OBS}
    tp = os.path.join(d, "t.ndjson")
    vlib.write_ndjson(tp, [{"ev": "decode", "case": c["id"], "src": c["src"], "dict": c["dict"], "dstLen": c["dstLen"], "a": a, "p": p}])
    acc, rej = vlib.validate_trace(ctx, "LZ4Block_Trace", tp, cfg="LZ4Block_Trace_" + prop, shards=1)
    print(json.dumps({"asm": a, "portable": p})[:600])
    if rej:
        print("VIOLATION property=%s replay=%s" % (prop, path))
        return 1
    print("replay: deviation not observed")
    return 0


def selftest(ctx, prop):
    bins = (("asm", vlib.build_harness()), ("portable", vlib.build_harness(noasm=True)))
    d = vlib.scratch("st")
    c = {"id": 1, "src": [0x11, 65, 1, 0, 0x10, 66], "dict": {"len": 0, "a": 7, "b": 3}, "dstLen": 7}
    one = os.path.join(d, "one.ndjson")
    vlib.write_ndjson(one, [c])
    ra, rp = run_cases(bins, one, d, "one")
    a = {k: ra[1][k] for k in OBS}
    p = {k: rp[1][k] for k in OBS}
    good = {"ev": "decode", "case": 1, "src": c["src"], "dict": c["dict"], "dstLen": 7, "a": a, "p": p}
    bad = json.loads(json.dumps(good))
    bad["case"] = 2
    if prop == "C03":
        bad["a"]["canary"] = False
    elif prop == "C04":
        bad["a"]["out"][2] ^= 1
    else:
        bad["p"]["n"] += 1
    tp = os.path.join(d, "t.ndjson")
    vlib.write_ndjson(tp, [good, bad])
    acc, rej = vlib.validate_trace(ctx, "LZ4Block_Trace", tp, cfg="LZ4Block_Trace_" + prop, shards=1)
    if acc != 1 or len(rej) != 1:
        raise vlib.MachineryFault("selftest %s: corrupted observation not rejected (acc=%d rej=%d)" % (prop, acc, len(rej)))
    print("selftest %s ok" % prop)
    return 0
