"""C10 - see checks/blockcmp.py (shared block-compressor driver)."""
from checks import blockcmp


def run(ctx):
    blockcmp.run(ctx, "C10")


def replay(ctx, path):
    return blockcmp.replay(ctx, "C10", path)


def selftest(ctx):
    return blockcmp.selftest(ctx, "C10")
