"""C20 - the lz4c command round-trips files and its flags do what they say.

 spec:  Lz4c.tla (flag vector -> Writer options -> descriptor; file effects), LZ4Frame.tla (strict validity via
        the reference parser)
 gen:   all 160 flag vectors of `compress` enumerated by TLC, x {file arguments, stdin/stdout} x input size classes
 val:   Lz4c_Trace: each recorded run of the real binary (built from /repo's cmd/lz4c against /repo's library) must
        satisfy Lz4c!RunOK: exit status 0, strictly valid frame with the descriptor the model computes, bytes equal to the
        library Writer's under the model's option vector, uncompress restores bytes and permission bits
"""
import json
import os
import random
import shutil
import stat
import subprocess

import vlib
from checks import framelib as fl


def build_lz4c(d):
    src = os.path.join(vlib.REPO, "cmd", "lz4c")
    w = os.path.join(d, "lz4c-src")
    os.makedirs(w)
    for f in os.listdir(src):
        if f.endswith(".go") or f in ("go.mod", "go.sum"):
            shutil.copy(os.path.join(src, f), w)
    gm = open(os.path.join(w, "go.mod")).read()
    gm = "\n".join(x for x in gm.splitlines() if "replace github.com/pierrec/lz4/v4" not in x)
    gm += "\n\nreplace github.com/pierrec/lz4/v4 => %s\n" % vlib.REPO
    open(os.path.join(w, "go.mod"), "w").write(gm)
    out = os.path.join(d, "lz4c")
    p = subprocess.run(["go", "build", "-o", out, "."], cwd=w, env=dict(vlib.GOENV), stdout=subprocess.PIPE, stderr=subprocess.STDOUT, text=True)
    if p.returncode != 0:
        raise vlib.MachineryFault("lz4c build failed:\n" + p.stdout[-2000:])
    return out


def multi_file(ctx, lz4c, d):
    """several files in one invocation (the command reuses one Writer / one Reader for all of them): files compressed with
    different block sizes and checksums, uncompressed together, in both orders - each comes back as it was"""
    r2 = random.Random(ctx.seed + 2020)
    B = 65536
    datas = [bytes(r2.randrange(256) for _ in range(B)) + (b"lorem ipsum dolor sit amet " * 12000)[:3 * B + 17],
             (b"the quick brown fox " * 40000)[:5 * B + 1], b"short", b""]
    flagsets = [["-size", "64K"], ["-size", "256K", "-bc"], ["-size", "1M", "-sc"], ["-size", "4M", "-bc", "-l", "3"]]
    for order in ([0, 1, 2, 3], [3, 2, 1, 0], [1, 0, 3, 2]) if ctx.tier != "quick" else ([0, 1, 2, 3], [3, 2, 1, 0]):
        wd = os.path.join(d, "multi-%s" % "".join(map(str, order)))
        os.makedirs(wd)
        names = []
        bad = None
        for k in order:
            name = "file%d.dat" % k
            open(os.path.join(wd, name), "wb").write(datas[k])
            p = subprocess.run([lz4c, "compress"] + flagsets[k] + [name], cwd=wd, stdout=subprocess.PIPE, stderr=subprocess.PIPE, timeout=600)
            if p.returncode != 0 or not os.path.exists(os.path.join(wd, name + ".lz4")):
                bad = "compress of %s failed (exit %d)" % (name, p.returncode)
            names.append(name)
        if bad is None:
            for n_ in names:
                os.remove(os.path.join(wd, n_))
            u = subprocess.run([lz4c, "uncompress"] + [n_ + ".lz4" for n_ in names], cwd=wd, stdout=subprocess.PIPE, stderr=subprocess.PIPE, timeout=600)
            for k, n_ in zip(order, names):
                pth = os.path.join(wd, n_)
                if not os.path.exists(pth) or open(pth, "rb").read() != datas[k]:
                    bad = "uncompress of %s in one invocation: %s does not come back (exit %d)" % (" ".join(x + ".lz4" for x in names), n_, u.returncode)
                    break
        # one compress invocation for all files (same flags), then uncompressed one by one
        if bad is None:
            wd2 = wd + "-c"
            os.makedirs(wd2)
            for k in order:
                open(os.path.join(wd2, "f%d.dat" % k), "wb").write(datas[k])
            c = subprocess.run([lz4c, "compress", "-size", "64K", "-bc"] + ["f%d.dat" % k for k in order], cwd=wd2, stdout=subprocess.PIPE, stderr=subprocess.PIPE, timeout=600)
            for k in order:
                os.remove(os.path.join(wd2, "f%d.dat" % k))
                u = subprocess.run([lz4c, "uncompress", "f%d.dat.lz4" % k], cwd=wd2, stdout=subprocess.PIPE, stderr=subprocess.PIPE, timeout=600)
                pth = os.path.join(wd2, "f%d.dat" % k)
                if not os.path.exists(pth) or open(pth, "rb").read() != datas[k]:
                    bad = "compress of several files in one invocation: f%d.dat does not come back (exit %d/%d)" % (k, c.returncode, u.returncode)
                    break
        ctx.evaluations += 1
        ctx.distinct += 1
        if bad:
            ctx.violation("C20:several-files:%s" % ("uncompress" if "uncompress of" in bad else "compress"), bad, {"kind": "c20-multi", "order": order, "what": bad})
            return
    ctx.extra["several_files_invocations"] = True
    # a file named through a symbolic link: the permission bits are those of the file, not of the link
    wd = os.path.join(d, "symlink")
    os.makedirs(wd)
    old = os.umask(0)
    try:
        for mode in (0o600, 0o640, 0o444):
            real, link = os.path.join(wd, "real%o.dat" % mode), "link%o.dat" % mode
            open(real, "wb").write(datas[1][:70000])
            os.chmod(real, mode)
            os.symlink(real, os.path.join(wd, link))
            p = subprocess.run([lz4c, "compress", "-size", "64K", link], cwd=wd, stdout=subprocess.PIPE, stderr=subprocess.PIPE, timeout=600)
            zp = os.path.join(wd, link + ".lz4")
            zmode = stat.S_IMODE(os.stat(zp).st_mode) if os.path.exists(zp) else -1
            ctx.evaluations += 1
            ctx.distinct += 1
            if zmode != mode:
                ctx.violation("C20:symlink:mode", "compress of a file named through a symbolic link: %s.lz4 has mode %o, the file has %o (exit %d)" % (link, zmode, mode, p.returncode),
                              {"kind": "c20-multi", "what": "symlink", "mode": mode, "zmode": zmode})
                break
    finally:
        os.umask(old)


def run_one(lz4c, b, d, case):
    """execute one compress / uncompress round with the real binary; returns the trace record"""
    wd = os.path.join(d, "run-%d" % case["id"])
    os.makedirs(wd)
    data = case["data"]
    # names whose last characters are in the set {'.', 'l', 'z', '4'} as well (a suffix is not a character set)
    name = ["in%d.bin", "in%d.small", "movie%d.mp4", "x%d.l", "data%d.z", "in%d.lz4", "final%d."][case["id"] % 7] % case["id"]
    fpath = os.path.join(wd, name)
    open(fpath, "wb").write(data)
    os.chmod(fpath, case["mode"])
    fl_ = case["flags"]
    args = ["compress", "-size", fl_["size"], "-l", str(fl_["l"])]
    if fl_["bc"]:
        args.append("-bc")
    if fl_["sc"]:
        args.append("-sc")
    if case.get("conc"):
        args += ["-c", str(case["conc"])]
    old = os.umask(0)
    rec = {"ev": "lz4c", "case": case["id"], "flags": fl_, "files": case["files"], "name": name, "mode": case["mode"]}
    try:
        if case["files"]:
            # every third case finds older, longer output files in place (same permission bits): they are replaced, not patched
            stale = case["id"] % 3 == 0 and case["mode"] & 0o200
            junk = bytes((i * 37 + 11) & 255 for i in range(len(data) + 70000))
            if stale:
                open(fpath + ".lz4", "wb").write(junk)
                os.chmod(fpath + ".lz4", case["mode"])
            p = subprocess.run([lz4c] + args + [name], cwd=wd, stdout=subprocess.PIPE, stderr=subprocess.PIPE, timeout=600)
            zpath = fpath + ".lz4"
            znames = [x for x in os.listdir(wd) if x != name]
            rec["zname"] = znames[0] if len(znames) == 1 else ",".join(sorted(znames))
            rec["zmode"] = stat.S_IMODE(os.stat(zpath).st_mode) if os.path.exists(zpath) else -1
            rec["exit"] = p.returncode
            # uncompress into a fresh directory holding only the .lz4 file
            ud = os.path.join(wd, "u")
            os.makedirs(ud)
            if os.path.exists(zpath):
                shutil.copy(zpath, os.path.join(ud, name + ".lz4"))
                os.chmod(os.path.join(ud, name + ".lz4"), rec["zmode"] if rec["zmode"] >= 0 else 0o644)
                if stale:
                    open(os.path.join(ud, name), "wb").write(junk)
                    os.chmod(os.path.join(ud, name), rec["zmode"] if rec["zmode"] >= 0 else 0o644)
            u = subprocess.run([lz4c, "uncompress", name + ".lz4"], cwd=ud, stdout=subprocess.PIPE, stderr=subprocess.PIPE, timeout=600)
            rec["uexit"] = u.returncode
            back = os.path.join(ud, name)
            rec["restored"] = os.path.exists(back) and open(back, "rb").read() == data
            rec["rmode"] = stat.S_IMODE(os.stat(back).st_mode) if os.path.exists(back) else -1
        else:
            zpath = os.path.join(wd, "out.lz4")
            with open(fpath, "rb") as fi, open(zpath, "wb") as fo:
                p = subprocess.run([lz4c] + args, cwd=wd, stdin=fi, stdout=fo, stderr=subprocess.PIPE, timeout=600)
            rec["exit"] = p.returncode
            back = os.path.join(wd, "back.bin")
            with open(zpath, "rb") as fi, open(back, "wb") as fo:
                u = subprocess.run([lz4c, "uncompress"], cwd=wd, stdin=fi, stdout=fo, stderr=subprocess.PIPE, timeout=600)
            rec["uexit"] = u.returncode
            rec["restored"] = open(back, "rb").read() == data
            rec["zname"], rec["zmode"], rec["rmode"] = name + ".lz4", case["mode"], case["mode"]
    finally:
        os.umask(old)
    if os.path.exists(zpath):
        s = vlib.harness(b, "frame-parsefile", "--file", zpath, "--input", fpath)
        rec.update({"status": s["status"], "consumed": s["consumed"], "total": s["total"], "same": s["same"], "flg": s["flg"], "bd": s["bd"],
                    "csize": s["csize"]})
        rec["zbytes"] = open(zpath, "rb").read()
    else:
        rec.update({"status": "missing", "consumed": 0, "total": 0, "same": False, "flg": 0, "bd": 0, "csize": []})
        rec["zbytes"] = b""
    rec["stderr"] = (p.stderr or b"")[-300:].decode("utf8", "replace")
    shutil.rmtree(wd, ignore_errors=True)
    return rec


def run(ctx):
    q = ctx.tier == "quick"
    ctx.rule = ("all 160 flag vectors (size x -bc x -sc x -l) from TLC x {file argument, stdin/stdout} x input classes {0, 1, 3000, B-1, B, B+1, "
                "2B+3} (thinned per vector in quick), 3 blocks stored differently (raw, text, zeros) with -c 1 / -c 4, x file modes {0600, 0640, 0644, 0755, 0444, 0400, 0555}; distinct = distinct (flags, operation, input class, mode)")
    b = vlib.build_harness()
    d = vlib.scratch("c20")
    lz4c = build_lz4c(d)
    rnd = random.Random(ctx.seed * 53 + 20)
    m = ctx.mc("Lz4c", want_cases=True, timeout=300, workers=2)
    vectors = sorted(m.cases, key=lambda x: json.dumps(x, sort_keys=True))
    if len(vectors) != 160:
        raise vlib.MachineryFault("Lz4c exported %d flag vectors" % len(vectors))
    ctx.exhaustive = True
    modes = [0o600, 0o640, 0o644, 0o755, 0o444, 0o400, 0o555]
    cases = []
    blockof = {"64K": 65536, "256K": 262144, "1M": 1 << 20, "4M": 4 << 20}
    datas = {}
    for vi, v in enumerate(vectors):
        B = blockof[v["flags"]["size"]]
        classes = [0, 1, 3000, B - 1, B, B + 1, 2 * B + 3]
        if q:
            classes = [classes[vi % 7], classes[(vi * 3 + 1) % 7]]
            if v["flags"]["l"] >= 4:
                classes = [x for x in classes if x <= 70000] or [3000]
        elif v["flags"]["l"] >= 6:
            classes = [x for x in classes if x <= (1 << 20) + 1]
        for ci, n in enumerate(classes):
            key = (n, (vi + ci) % 3)
            if key not in datas:
                r2 = random.Random(n * 7 + key[1])
                words = [b"lorem ", b"ipsum ", b"dolor ", b"sit ", b"amet ", b"\x00\x01\x02", bytes([r2.randrange(256) for _ in range(7)])]
                buf = bytearray()
                while len(buf) < n:
                    buf += r2.choice(words)
                datas[key] = bytes(buf[:n])
            cases.append({"id": len(cases) + 1, "flags": v["flags"], "opts": v["opts"], "files": (vi + ci) % 2 == 0, "data": datas[key],
                          "mode": modes[(vi + ci) % len(modes)], "conc": [0, 1, 4][(vi + ci) % 3], "n": n, "datakey": key})
    # multi-block files whose blocks are stored differently (incompressible, then text, then zeros), with -c 1 and -c 4
    k = 0
    for vi, v in enumerate(vectors):
        if v["flags"]["size"] != "64K" or v["flags"]["l"] >= 4 or (q and vi % 3):
            continue
        B = 65536
        r2 = random.Random(977 + k)
        data = bytes(r2.randrange(256) for _ in range(B)) + (b"lorem ipsum dolor sit amet " * (B // 27 + 1))[:B] + bytes(B) + bytes(r2.randrange(256) for _ in range(5))
        key = (-1, k % 2)
        datas.setdefault(key, data)
        cases.append({"id": len(cases) + 1, "flags": v["flags"], "opts": v["opts"], "files": k % 2 == 0, "data": datas[key],
                      "mode": modes[k % len(modes)], "conc": [1, 4][k % 2], "n": len(data), "datakey": key})
        k += 1
    # content that repeats at a distance of exactly 64 KiB (one more than the largest offset the format has), block sizes
    # of 256K and more, level 0
    k = 0
    for vi, v in enumerate(vectors):
        if v["flags"]["size"] == "64K" or v["flags"]["l"] != 0 or (q and vi % 4):
            continue
        r2 = random.Random(4242 + k)
        period = bytes(r2.randrange(256) for _ in range(65536))
        data = (period * 4)[:200000 + k]
        key = (-2, k % 2)
        datas.setdefault(key, data)
        cases.append({"id": len(cases) + 1, "flags": v["flags"], "opts": v["opts"], "files": k % 2 == 0, "data": datas[key],
                      "mode": modes[k % len(modes)], "conc": [1, 4][k % 2], "n": len(datas[key]), "datakey": key})
        k += 1
    # library Writer output for (options, data): what the command must emit
    libcases, libkey = [], {}
    for c in cases:
        k = (json.dumps(c["opts"], sort_keys=True), c["datakey"])
        if k in libkey:
            continue
        p = os.path.join(d, "lib-%d.lz4" % (len(libcases) + 1))
        libkey[k] = p
        o = {"code": c["opts"]["code"], "bcs": c["opts"]["bcs"], "ccs": c["opts"]["ccs"], "level": c["opts"]["level"], "conc": 1, "legacy": False, "handler": False}
        libcases.append({"id": len(libcases) + 1, "input": {"family": "bytes", "len": len(c["data"]), "seed": 0, "bytes": list(c["data"])} if len(c["data"]) <= 4000 else
                         {"family": "file", "len": len(c["data"]), "seed": 0, "path": data_file(d, c)},
                         # the command feeds the Writer through io.Copy, i.e. Writer.ReadFrom: same entry point here
                         "opts": o, "calls": [{"op": "readfrom", "n": 0}, {"op": "close"}], "save": p})
    recs, faults = fl.shard_run(b, "frame-write", libcases, d, "lib")
    if faults:
        raise vlib.MachineryFault("frame-write failed: %s" % faults[0]["stderr"][-800:])
    import concurrent.futures as cf
    with cf.ThreadPoolExecutor(vlib.NCPU) as ex:
        out = list(ex.map(lambda c: run_one(lz4c, b, d, c), cases))
    ctx.evaluations += len(out)
    ctx.distinct += len({(json.dumps(c["flags"], sort_keys=True), c["files"], c["n"], c["mode"]) for c in cases})
    tp = os.path.join(d, "trace.ndjson")
    by_id = {c["id"]: c for c in cases}
    with open(tp, "w") as f:
        for c, r in zip(cases, out):
            lib = open(libkey[(json.dumps(c["opts"], sort_keys=True), c["datakey"])], "rb").read()
            r["libsame"] = r.pop("zbytes") == lib
            f.write(json.dumps(r, separators=(",", ":")) + "\n")
    acc, rej = vlib.validate_trace(ctx, "Lz4c_Trace", tp, timeout=1200, max_reject=8)
    ctx.sample({"recorded_run": {k: v for k, v in out[3].items() if k != "stderr"}})
    for rj in rej:
        rec = json.loads(rj["line"])
        c = by_id[rec["case"]]
        key = "C20:%s:exit=%s/%s:status=%s:desc=%s:libsame=%s:restored=%s:mode=%s" % (
            "files" if c["files"] else "stdio", rec["exit"], rec["uexit"], rec["status"],
            "ok" if (rec["flg"], rec["bd"]) == (c_flg(c), 16 * c["opts"]["code"]) else "differs", rec["libsame"], rec["restored"],
            "kept" if (rec["zmode"] == rec["mode"] and rec["rmode"] == rec["mode"]) else "changed")
        if any(v[0] == key for v in ctx.violations):
            continue
        r2 = run_one(lz4c, b, d, c)
        lib = open(libkey[(json.dumps(c["opts"], sort_keys=True), c["datakey"])], "rb").read()
        r2["libsame"] = r2.pop("zbytes") == lib
        t2 = os.path.join(d, "again.ndjson")
        vlib.write_ndjson(t2, [r2])
        sub = vlib.Ctx(ctx.prop, ctx.tier, ctx.seed)
        a2, rej2 = vlib.validate_trace(sub, "Lz4c_Trace", t2, shards=1)
        if not rej2:
            ctx.unreproducible("%s: %s" % (key, rj["line"][:300]))
            continue
        ctx.violation(key, "lz4c run does not satisfy Lz4c!RunOK: %s" % key,
                      {"kind": "c20", "case": {k: v for k, v in c.items() if k != "data"}, "data_len": len(c["data"]), "observed": r2})
    ctx.trusted += ["the lz4c binary is built from a scratch copy of /repo/cmd/lz4c whose go.mod replaces the library with /repo",
                    "ref.ParseFrame (strict) on the .lz4 files"]
    multi_file(ctx, lz4c, d)
    ctx.assumptions += ["the -c flag (concurrency) is varied but not judged separately (output must not depend on it)"]


def c_flg(c):
    o = c["opts"]
    return 64 + 32 + (16 if o["bcs"] else 0) + (4 if o["ccs"] else 0)


def data_file(d, c):
    p = os.path.join(d, "data-%d-%d.bin" % c["datakey"])
    if not os.path.exists(p):
        open(p, "wb").write(c["data"])
    return p


def replay(ctx, path):
    print("C20 replay: re-run `bin/check C20` (cases need the built binary and generated files); the replay file documents the case")
    return 2


def selftest(ctx):
    d = vlib.scratch("c20s")
    good = {"ev": "lz4c", "case": 1, "flags": {"size": "64K", "bc": True, "sc": False, "l": 3}, "files": True, "name": "a", "zname": "a.lz4",
            "mode": 420, "zmode": 420, "rmode": 420, "exit": 0, "uexit": 0, "status": "ok", "consumed": 50, "total": 50, "same": True,
            "flg": 64 + 32 + 16 + 4, "bd": 64, "csize": [], "libsame": True, "restored": True}
    bad = dict(good, case=2, flg=64 + 32 + 16)          # -sc not given, yet no content checksum
    tp = os.path.join(d, "t.ndjson")
    vlib.write_ndjson(tp, [good, bad])
    acc, rej = vlib.validate_trace(ctx, "Lz4c_Trace", tp, shards=1)
    if acc != 1 or len(rej) != 1:
        raise vlib.MachineryFault("selftest C20: acc=%d rej=%d" % (acc, len(rej)))
    print("selftest C20 ok")
    return 0
