"""C11 - see checks/blockcmp.py (shared block-compressor driver)."""
from checks import blockcmp


def run(ctx):
    blockcmp.run(ctx, "C11")


def replay(ctx, path):
    return blockcmp.replay(ctx, "C11", path)


def selftest(ctx):
    return blockcmp.selftest(ctx, "C11")
