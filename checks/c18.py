"""C18 - the compressing reader yields one valid frame for any read pattern.

 spec:  CompressingReader.tla (overflow writer + four-state lifecycle over lengths), LZ4Frame.tla
 MC:    MC_CompressingReader: every sequence of <= 5 Read sizes from {0,1,3,6,7,8,15,40} against five piece layouts
        (incl. source failure): n <= len(p), progress, nothing lost / nothing twice, EOF only when drained
 gen:   read-size patterns (the MC's sizes, and sizes derived from the frame's own layout: block payload -1/0/+1,
        4 x frame), inputs (empty, 1 byte, sub-block, exact multiples of the block size, incompressible), options,
        sources with short reads or failing after k blocks
 val:   CompressingReader_Trace: every Read call's (len(p), n, err) and the overflow bookkeeping read through the verif
        accessor must be the model's for the piece layout of that frame; LZ4Frame_Trace_C18: the concatenated output is a
        strictly valid frame that decodes to the source and shows the applied options
"""
import json
import os
import random

import vlib
from checks import framelib as fl


def groups_of(rec_, fail_blocks=None):
    o = rec_["opts"]
    hdr = 15 if o["size"] else 7
    per = lambda sz: [4, sz] + ([4] if o["bcs"] else [])
    trailer = [8 if o["ccs"] else 4]
    blocks = rec_["ref"]["blocks"]
    B = rec_["block"]
    g = [[hdr]]
    if fail_blocks is not None:
        for b_ in blocks[:fail_blocks]:
            g.append(per(b_["size"]))
        g.append([-1])
        return g
    n = rec_["inputLen"]
    full = n // B
    for b_ in blocks[:full]:
        g.append(per(b_["size"]))
    if n % B:
        g.append(per(blocks[full]["size"]) + trailer)
    else:
        g.append(trailer)
    return g


def events(r, groups):
    if r.get("hung") or r.get("panicked"):
        # a call that panicked or never returned: no behaviour of the model has such a step
        return [{"ev": "cnew", "case": r["case"], "groups": [], "rst": "initial", "rov": 0},
                {"ev": "ccall", "case": r["case"], "plen": 0, "n": 1, "err": "hang-or-panic", "st": "done", "ovLen": 0, "ovPos": 0}]
    rs = r.get("reset") or {"st": "initial", "ovLen": 0, "ovPos": 0}
    ev = [{"ev": "cnew", "case": r["case"], "groups": groups, "rst": rs["st"], "rov": rs["ovLen"] - rs["ovPos"]}]
    for c in r["calls"]:
        if c.get("after"):
            continue
        ev.append({"ev": "ccall", "case": r["case"], "plen": c["plen"], "n": c["n"], "err": c["err"], "st": c["st"],
                   "ovLen": c["ovLen"], "ovPos": c["ovPos"]})
    ev.append({"ev": "cend", "case": r["case"], "total": r["outLen"], "poison": r.get("poison") or []})
    return ev


def emit_event(r):
    o = r["opts"]
    opts = {"code": o["code"], "bcs": o["bcs"], "ccs": o["ccs"], "size": o["size"], "legacy": False}
    if r["small"]:
        return {"ev": "emit", "case": r["case"], "bytes": r["bytes"], "input": r["input"], "opts": opts}
    return {"ev": "emitbig", "case": r["case"], "ref": r["ref"], "same": r["same"], "inputLen": r["inputLen"], "opts": opts, "noflush": True}


def run(ctx):
    q = ctx.tier == "quick"
    ctx.rule = ("options (block size 64K/256K, block checksum, content checksum, size, level) x inputs {0, 1, 300, B-1, B, B+1, 2B, 3B+7, "
                "incompressible B+9} x read patterns {fixed sizes 0..15 and 40, sizes around each block's payload, 4 x frame, seeded mixes} x "
                "source behaviour {whole reads, short reads, failure after k blocks}; distinct = distinct (options, input, read pattern, source)")
    b = vlib.build_harness()
    d = vlib.scratch("c18")
    rnd = random.Random(ctx.seed * 41 + 18)
    ctx.mc("MC_CompressingReader", timeout=900)
    vecs = []
    for i in range(6 if q else 160):
        o = {"code": 4 + (i % 2), "bcs": i % 2 == 0, "ccs": i % 3 != 1, "level": [0, 1, 3, 9][i % 4], "conc": 1, "legacy": False}
        if i % 3 == 0:
            o["size"] = -1
        vecs.append(o)
    # content sizes for which TLC found the header checksum byte to be 0x00 (a value some code takes for "not set")
    z = ctx.mc("Gen_HeaderZero", want_cases=True, timeout=600)
    for row in sorted(z.cases, key=lambda r: json.dumps(r, sort_keys=True)):
        if row["code"] in (4, 5):
            vecs.append({"code": row["code"], "bcs": row["bcs"], "ccs": row["ccs"], "level": 0, "conc": 1, "legacy": False, "size": row["size"], "_one": True})
    # content sizes around 2^31, 2^32 and 2^63 (every byte of the 8-byte field matters)
    for k, size in enumerate([(1 << 31) - 1, 1 << 31, (1 << 32) + 5, (1 << 40) + (1 << 31) + 7, 1 << 63, (1 << 64) - 1]):
        vecs.append({"code": 4, "bcs": k % 2 == 0, "ccs": True, "level": 0, "conc": 1, "legacy": False, "size": size, "_one": True})
    probes = []
    for o in vecs:
        B = fl.BLOCK[o["code"]]
        one = o.pop("_one", False)
        for n, fam in ((300, "text"),) if one else ((0, "text"), (1, "text"), (300, "text"), (B - 1, "text"), (B, "mixed"), (B + 1, "zeros"), (2 * B, "text"),
                       (3 * B + 7, "blockmix"), (B + 9, "random")):
            if q and o["code"] == 5 and n > B + 9:
                continue
            oo = dict(o)
            if oo.get("size") == -1:
                oo["size"] = n
            if not oo.get("size"):
                oo.pop("size", None)
            inp = fl.input_for(rnd, n, fam)
            inp["p1"] = B
            probes.append({"id": len(probes) + 1, "input": inp, "opts": oo, "reads": [1 << 22]})
    pr, faults = fl.shard_run(b, "cr-run", probes, d, "probe")
    if faults:
        raise vlib.MachineryFault("cr-run failed: %s" % faults[0]["stderr"][-800:])
    cases = []
    for p in probes:
        r0 = pr[p["id"]]
        sizes = [b_["size"] for b_ in r0["ref"]["blocks"]] or [1]
        total = r0["outLen"]
        hdr = 15 if p["opts"].get("size") else 7
        bcs4 = 4 if p["opts"]["bcs"] else 0
        pats = [[0, 1], [1], [3], [6], [7], [8], [15], [40], [7, 4, sizes[0]], [sizes[0] - 1], [sizes[0]], [sizes[0] + 1], [4 * total + 1],
                [sizes[0] + 4], [11, sizes[-1] + 8], [rnd.randrange(1, 50) for _ in range(5)], [rnd.randrange(1, 3 * max(sizes) + 2) for _ in range(3)]]
        if total > 20000:
            pats = [x for x in pats if total // max(1, min(v for v in x if v > 0) if any(x) else 1) <= 2500 or len(x) > 1 and max(x) > 2000]
        if q:
            pats = rnd.sample(pats, min(5, len(pats)))
        # buffers that end exactly at the end of the header / of the first block / of every block (nothing overflows)
        pats += [[hdr, 16], [hdr + 4 + sizes[0] + bcs4, 5], [hdr + 4 + sizes[0] + bcs4] + [4 + z + bcs4 for z in sizes[1:]], [hdr + 4 + sizes[0] + bcs4 - 1, 1, 9]]
        for pat in pats:
            if all(v == 0 for v in pat):
                continue
            c = {"id": len(cases) + 1, "input": p["input"], "opts": p["opts"], "reads": pat, "probe": p["id"]}
            k = rnd.random()
            if k < 0.25:
                c["frag"] = rnd.choice([[1, 2, 3], [0, 5, 0, 0, 4096], [977]])
            cases.append(c)
        # the source fails after k blocks (every k for small inputs)
        B = r0["block"]
        nblk = p["input"]["len"] // B
        for k in range(0, nblk + 1):
            pos = -1 if (k == 0 and rnd.random() < 0.5) else k * B + (rnd.randrange(0, B) if k < nblk or p["input"]["len"] % B else 0)
            if pos == 0:
                pos = -1
            if pos > p["input"]["len"]:
                continue
            if pos == p["input"]["len"] and pos > 0:
                continue
            cases.append({"id": len(cases) + 1, "input": p["input"], "opts": p["opts"], "reads": rnd.choice([[40], [4096], [1 << 20], [7, 300]]),
                          "failPos": pos, "failKind": (k + len(cases)) % 3, "probe": p["id"], "failBlocks": (0 if pos < 0 else pos // B)})
        cases.append({"id": len(cases) + 1, "input": p["input"], "opts": p["opts"], "reads": [4096], "probe": p["id"], "reapply": True})
        # reuse of the encoder instance: an earlier stream with another block size, then Reset + Apply
        cases.append({"id": len(cases) + 1, "input": p["input"], "opts": p["opts"], "reads": rnd.choice([[4096], [1 << 20], [7, 300]]), "probe": p["id"],
                      "preCode": rnd.choice([5, 6, 7]), "preLen": rnd.choice([0, 10, 300000])})
        # ... whose content size / block checksums the judged stream withdraws again
        cases.append({"id": len(cases) + 1, "input": p["input"], "opts": p["opts"], "reads": rnd.choice([[4096], [1 << 20], [7, 300]]), "probe": p["id"],
                      "preCode": rnd.choice([4, 5]), "preLen": rnd.choice([10, 70000]), "preSize": rnd.choice([1, 123456, 1 << 40]), "preBCS": True})
        # ... and an earlier stream abandoned while compressed bytes were parked in the overflow buffer
        cases.append({"id": len(cases) + 1, "input": p["input"], "opts": p["opts"], "reads": rnd.choice([[4096], [1 << 20], [7, 300], [1]]), "probe": p["id"],
                      "preCode": rnd.choice([4, 5, 6]), "preLen": rnd.choice([300, 70000, 300000]), "preCalls": rnd.choice([1, 2, 5]),
                      "preBuf": rnd.choice([1, 7, 16, 40])})
    recs, faults = fl.shard_run(b, "cr-run", cases, d, "run")
    if faults:
        raise vlib.MachineryFault("cr-run failed: %s" % faults[0]["stderr"][-800:])
    ctx.evaluations += len(recs) + len(pr)
    ctx.distinct += len(cases)
    by_id = {c["id"]: c for c in cases}
    t1, t2 = os.path.join(d, "cr.ndjson"), os.path.join(d, "emit.ndjson")
    with open(t1, "w") as f1, open(t2, "w") as f2:
        for c in cases:
            r = recs[c["id"]]
            if r["hung"] or r["panicked"]:
                for e in events(r, []):
                    f1.write(json.dumps(e, separators=(",", ":")) + "\n")
                continue
            g = groups_of(pr[c["probe"]], c.get("failBlocks") if "failPos" in c else None)
            for e in events(r, g):
                f1.write(json.dumps(e, separators=(",", ":")) + "\n")
            if "failPos" not in c:
                f2.write(json.dumps(emit_event(r), separators=(",", ":")) + "\n")
    ex = cases[len(cases) // 3]
    ctx.sample({"case": {k: v for k, v in ex.items() if k != "probe"}, "events": events(recs[ex["id"]], groups_of(pr[ex["probe"]]))[:6]})
    acc, rej = vlib.validate_trace(ctx, "CompressingReader_Trace", t1, timeout=3000, max_reject=6)
    acc2, rej2 = vlib.validate_trace(ctx, "LZ4Frame_Trace", t2, cfg="LZ4Frame_Trace_C18", timeout=3000, max_reject=6)
    for rj, which in [(x, "calls") for x in rej] + [(x, "frame") for x in rej2]:
        rec = json.loads(rj["line"])
        c = by_id[rec["case"]]
        r = recs[c["id"]]
        if r.get("hung") or r.get("panicked"):
            key = "C18:%s:prelude=%s" % ("hang" if r.get("hung") else "panic", "preCode" in c)
        elif which == "calls":
            key = "C18:calls:%s:plen%slen(ov):n=%s:err=%s:fail=%s" % (rec.get("st"), "<" if rec.get("plen", 0) < rec.get("ovLen", 0) else ">=",
                                                                   "0" if rec.get("n") == 0 else ("plen" if rec.get("n") == rec.get("plen") else "partial"),
                                                                   rec.get("err"), "failPos" in c)
        else:
            key = "C18:frame:status=%s:same=%s:reapply=%s" % (r["ref"]["status"], r["same"], c.get("reapply", False))
        if any(v[0] == key for v in ctx.violations):
            continue
        rr, _ = fl.shard_run(b, "cr-run", [c], d, "again", nshards=1)
        r2 = rr[c["id"]]
        a1, a2 = os.path.join(d, "a1.ndjson"), os.path.join(d, "a2.ndjson")
        g = groups_of(pr[c["probe"]], c.get("failBlocks") if "failPos" in c else None)
        vlib.write_ndjson(a1, events(r2, g))
        sub = vlib.Ctx(ctx.prop, ctx.tier, ctx.seed)
        x1, j1 = vlib.validate_trace(sub, "CompressingReader_Trace", a1, shards=1)
        j2 = []
        if "failPos" not in c and not (r2.get("hung") or r2.get("panicked")):
            vlib.write_ndjson(a2, [emit_event(r2)])
            x2, j2 = vlib.validate_trace(sub, "LZ4Frame_Trace", a2, cfg="LZ4Frame_Trace_C18", shards=1)
        if not j1 and not j2:
            ctx.unreproducible("%s: %s" % (key, rj["line"][:300]))
            continue
        obs = {k: v for k, v in r2.items() if k not in ("bytes", "input")}
        obs["calls"] = (obs.get("calls") or [])[:40]
        if obs.get("ref"):
            obs["ref"]["blocks"] = obs["ref"]["blocks"][:6]
        ctx.violation(key, "compressing reader run rejected: %s" % key,
                      {"kind": "c18", "case": {k: v for k, v in c.items()}, "groups": g, "observed": obs,
                       "rejected_event": json.loads((j1 or j2)[0]["line"])})
    ctx.trusted += ["verif accessor CompressingReader.VerifState (overflow bookkeeping)", "ref.ParseFrame for outputs > 360 bytes"]


def replay(ctx, path):
    rp = json.load(open(path))
    b = vlib.build_harness()
    d = vlib.scratch("c18r")
    c = rp["case"]
    rr, _ = fl.shard_run(b, "cr-run", [c], d, "again", nshards=1)
    r2 = rr[c["id"]]
    a1 = os.path.join(d, "a1.ndjson")
    vlib.write_ndjson(a1, events(r2, rp["groups"]))
    x1, j1 = vlib.validate_trace(ctx, "CompressingReader_Trace", a1, shards=1)
    j2 = []
    if "failPos" not in c:
        a2 = os.path.join(d, "a2.ndjson")
        vlib.write_ndjson(a2, [emit_event(r2)])
        x2, j2 = vlib.validate_trace(ctx, "LZ4Frame_Trace", a2, cfg="LZ4Frame_Trace_C18", shards=1)
    if j1 or j2:
        print("VIOLATION property=C18 replay=%s" % path)
        return 1
    print("replay: deviation not observed")
    return 0


def selftest(ctx):
    b = vlib.build_harness()
    d = vlib.scratch("c18s")
    c = {"id": 1, "input": {"family": "text", "len": 70000, "seed": 2}, "reads": [1 << 22],
         "opts": {"code": 4, "bcs": True, "ccs": True, "level": 0, "conc": 1, "legacy": False}}
    p, _ = fl.shard_run(b, "cr-run", [c], d, "p", nshards=1)
    c2 = dict(c, reads=[7, 300])
    rr, _ = fl.shard_run(b, "cr-run", [c2], d, "r", nshards=1)
    g = groups_of(p[1])
    ev = events(rr[1], g)
    bad = json.loads(json.dumps(ev))
    bad[5]["n"] -= 1
    for name, e, want in (("good", ev, 0), ("bad", bad, 1)):
        tp = os.path.join(d, name + ".ndjson")
        vlib.write_ndjson(tp, e)
        acc, rej = vlib.validate_trace(ctx, "CompressingReader_Trace", tp, shards=1)
        if len(rej) != want:
            raise vlib.MachineryFault("selftest C18: %s trace gave %d rejections: %s" % (name, len(rej), rej[:1]))
    print("selftest C18 ok")
    return 0
