"""C19 - frame header acceptance is exact and fields are reported faithfully.

 spec:  LZ4Frame.tla (HeaderChecksum, BdCode/MaxBlockOf, ParseLenient), XXH32.tla
 MC:    MC_LZ4Frame (the parser inverts the encoder; prefixes; skippable prefix)
 gen:   Gen_Header: TLC computes the checksum byte of every (FLG, BD) descriptor of the tier's slice, without a
        size field and with 5 sizes; the harness tries all 256 checksum bytes per row through ValidFrameHeader,
        and the accepting one plus two rejecting ones through a Reader (fresh, and reused via Reset) + Size
 val:   LZ4Frame_Trace (event hdr): seeded random headers with the observed results, re-derived by TLC
"""
import json
import os

import vlib


def run(ctx):
    q = ctx.tier == "quick"
    b = vlib.build_harness()
    d = vlib.scratch("c19")
    ctx.mc("MC_LZ4Frame", timeout=900)
    off = ctx.seed % 16
    cfg = ("SPECIFICATION Spec\nCONSTANTS\n  FlgSet <- AllFlg\n  BdStep = %d\n  BdOffset = %d\nINVARIANT Emit\nCHECK_DEADLOCK FALSE\n"
           % ((16, off) if q else (1, 0)))
    r = ctx.mc("Gen_Header", cfg_text=cfg, want_cases=True, workers=min(vlib.NCPU, 12), timeout=3000, heap="8g")
    rows = r.cases
    want = (256 * 16 * 3) if q else (256 * 256 * 3)   # half the FLG values carry 5 rows, half 1
    if len(rows) != want:
        raise vlib.MachineryFault("Gen_Header produced %d rows, expected %d" % (len(rows), want))
    ctx.exhaustive = not q
    ctx.rule = ("gen: every FLG value x %s BD values x (no size | sizes 0, 1, 123, 2^32, 2^64-1) x all 256 checksum bytes through "
                "ValidFrameHeader; Reader+Size on the accepted byte and two rejected ones. distinct = number of distinct "
                "(descriptor, size, checksum byte) headers tried" % ("16 (low nibble = seed %% 16)" if q else "all 256"))
    tp = os.path.join(d, "table.ndjson")
    vlib.write_ndjson(tp, rows)
    mm = os.path.join(d, "mm.ndjson")
    tr = os.path.join(d, "trace.ndjson")
    s = vlib.harness(b, "hdr-run", "--table", tp, "--out", mm, "--trace", tr, "--ntrace", 3000 if q else 30000, "--seed", ctx.seed, timeout=3000)
    ctx.evaluations += s["calls"] + s["reader_runs"]
    ctx.distinct += s["calls"]
    ctx.sample({"table_row": rows[len(rows) // 3]})
    for m in vlib.read_ndjson(mm)[:200]:
        row = m["row"]
        if row == "non-magic":
            key = "C19:non-magic-first-word"
        else:
            exp = "accept" if (m["hc"] == row["hc"] and row["codeok"]) else "reject"
            key = "C19:%s:size=%s:codeok=%s:hcok=%s:got=%s/%s" % (exp, "yes" if row["size"] else "no", row["codeok"], m["hc"] == row["hc"],
                                                                m["err"], (m["reader"] or {}).get("err"))
        if any(v[0] == key for v in ctx.violations):
            continue
        # re-execute this row alone
        one = os.path.join(d, "one.ndjson")
        if row == "non-magic":
            vlib.write_ndjson(one, [rows[0]])
        else:
            vlib.write_ndjson(one, [row])
        s1 = vlib.harness(b, "hdr-run", "--table", one, "--out", os.path.join(d, "mm1.ndjson"))
        replay_rows = [row] if row != "non-magic" else [rows[0]]
        if s1["mismatches"] == 0:
            # the deviation may depend on what the reused Reader saw before (Reset): re-execute the whole table
            mm2 = os.path.join(d, "mm2.ndjson")
            vlib.harness(b, "hdr-run", "--table", tp, "--out", mm2, timeout=3000)
            if not any(x["row"] == row and x["hc"] == m["hc"] for x in vlib.read_ndjson(mm2)):
                raise vlib.MachineryFault("header mismatch not reproducible: %s" % json.dumps(m)[:300])
            replay_rows = rows
            key += ":history-dependent"
        ctx.violation(key, "header acceptance differs from C19's rule: %s" % key,
                      {"kind": "hdr", "row": row, "observed": m, "table": replay_rows if len(replay_rows) < 50 else "full table of the run (seed %d, tier %s)" % (ctx.seed, ctx.tier)})
    acc, rej = vlib.validate_trace(ctx, "LZ4Frame_Trace", tr, cfg="LZ4Frame_Trace_C19", timeout=1800)
    ctx.sample({"recorded_hdr_event": json.loads(open(tr).readline())})
    for rj in rej:
        rec = json.loads(rj["line"])
        ctx.violation("C19:trace:%s/%s" % (rec["err"], rec["rerr"]), "recorded header observation rejected by LZ4Frame_Trace",
                      {"kind": "hdr-trace", "record": rec, "tlc": rj["tlc"]})
    ctx.assumptions += ["quick tier: 1/16 of the BD values (all FLG values, all block-size codes); thorough: all 65536 descriptors"]


def replay(ctx, path):
    rp = json.load(open(path))
    b = vlib.build_harness()
    d = vlib.scratch("c19r")
    if rp["kind"] == "hdr":
        one = os.path.join(d, "one.ndjson")
        vlib.write_ndjson(one, [rp["row"]] if rp["row"] != "non-magic" else [{"flg": 100, "bd": 112, "size": [], "hc": 185, "codeok": True}])
        s = vlib.harness(b, "hdr-run", "--table", one, "--out", os.path.join(d, "mm.ndjson"))
        bad = s["mismatches"] > 0
    else:
        tp = os.path.join(d, "t.ndjson")
        vlib.write_ndjson(tp, [rp["record"]])
        acc, rej = vlib.validate_trace(ctx, "LZ4Frame_Trace", tp, cfg="LZ4Frame_Trace_C19", shards=1)
        bad = bool(rej)
    if bad:
        print("VIOLATION property=C19 replay=%s" % path)
        return 1
    print("replay: deviation not observed")
    return 0


def selftest(ctx):
    b = vlib.build_harness()
    d = vlib.scratch("c19s")
    one = os.path.join(d, "one.ndjson")
    vlib.write_ndjson(one, [{"flg": 100, "bd": 112, "size": [], "hc": 184, "codeok": True}])   # correct byte is 185
    s = vlib.harness(b, "hdr-run", "--table", one, "--out", os.path.join(d, "mm.ndjson"), "--trace", os.path.join(d, "t.ndjson"), "--ntrace", 20)
    if s["mismatches"] == 0:
        raise vlib.MachineryFault("selftest: wrong table row not reported")
    recs = vlib.read_ndjson(os.path.join(d, "t.ndjson"))
    recs[3]["valid"] = not recs[3]["valid"]
    vlib.write_ndjson(os.path.join(d, "t2.ndjson"), recs)
    acc, rej = vlib.validate_trace(ctx, "LZ4Frame_Trace", os.path.join(d, "t2.ndjson"), cfg="LZ4Frame_Trace_C19", shards=1)
    if len(rej) != 1:
        raise vlib.MachineryFault("selftest: corrupted hdr record not rejected")
    print("selftest C19 ok")
    return 0
