"""C16 - frames with dependent blocks decode exactly across the 64 KiB window.

 spec:  Reader.tla (window / trim rule), LZ4Frame.tla + LZ4Block.tla (dictionary = last 64 KiB of content)
 MC:    MC_ReaderWindow (W = 4, every block-size sequence), MC_LinkedPlans (real constants, all plans <= 3 blocks):
        window >= min(W, decoded), the trim slice is in bounds
 gen:   MC_LinkedPlans' plans (size class x kind per block) and seeded longer plans, encoded by the independent
        encoder (ref.EncodeFrame, dependent blocks) with checksums on/off
 val:   Reader_Trace with linked = TRUE: the hook reports (block length, window length) after every block and must
        follow Reader!BlockDone exactly; every Read call's count/error; delivered = content.  LZ4Frame_Trace_C16: small
        plans are decoded by TLC itself (which also validates the encoder), large ones through the reference parser.
"""
import json
import os
import random

import vlib
from checks import framelib as fl


def code_for(blocks):
    m = max([b["size"] for b in blocks] + [1])
    need = m + m // 255 + 32
    for code, cap in ((4, 65536), (5, 262144), (6, 1 << 20), (7, 4 << 20)):
        if need <= cap:
            return code
    return None


def run(ctx):
    q = ctx.tier == "quick"
    ctx.rule = ("all plans of 3 blocks over 10 size classes (0 .. 4 MiB) x 6 kinds (raw, literals, match 1 back, as far back as 65535, "
                "into the start of the previous block, straddling the block boundary) enumerated by TLC, thinned by a seeded stride in "
                "quick; seeded plans of 4..40 blocks with explicit offsets {1, block length, 65534, 65535}; plans of odd-sized blocks with two "
                "matches each (inside the block, then into the preceding blocks); x checksums x reader "
                "configuration (concurrency 1/4, Read buffer sequences from {1, 4096, block, 2 x block}, WriteTo); distinct = distinct (plan, options, reader configuration)")
    b = vlib.build_harness()
    d = vlib.scratch("c16")
    rnd = random.Random(ctx.seed * 37 + 16)
    ctx.mc("MC_ReaderWindow", timeout=600)
    # unbounded supplement: the window invariant is inductive for the real constants (Apalache)
    obligations = [("Init", "IndInv", 0), ("IndInit", "IndInv", 1), ("IndInit", "TrimInBounds", 0)]
    proved = 0
    for init, inv, length in obligations:
        ok, text = vlib.run_apalache("ReaderWindowInd", init, inv, length)
        if ok is None:
            ctx.notes.append("apalache could not be run (%s): inductive supplement skipped" % text[:100])
            break
        if not ok:
            raise vlib.MachineryFault("Apalache refutes %s from %s (model-level finding, not a verdict on the code):\n%s" % (inv, init, text))
        proved += 1
    ctx.extra["apalache_inductive_obligations"] = {"discharged": proved, "of": len(obligations),
                                                   "what": "ReaderWindowInd: Init => IndInv; IndInv /\\ Next => IndInv'; IndInv => TrimInBounds (W = 65536, blocks 0..4 MiB)"}
    m = ctx.mc("MC_LinkedPlans", want_cases=True, timeout=1800, heap="8g")
    plans = sorted((p["blocks"] for p in m.cases), key=lambda x: json.dumps(x, sort_keys=True))
    if len(plans) != 216000:
        raise vlib.MachineryFault("MC_LinkedPlans exported %d plans" % len(plans))
    # 4 MiB blocks are costly: keep plans whose blocks total <= 9 MiB, stride by tier
    usable = [p for p in plans if sum(b_["size"] for b_ in p) <= (9 << 20)]
    stride = max(1, len(usable) // (260 if q else 12000))
    chosen = usable[(ctx.seed % stride)::stride]
    # seeded longer plans aimed at the trim rule: many blocks below 64 KiB, far offsets afterwards
    for _ in range(60 if q else 2500):
        n = rnd.randrange(4, 41)
        blocks = []
        for i in range(n):
            size = rnd.choice([5, 100, 4096, 20000, 40000, 65535, 65536] + ([200000] if rnd.random() < 0.1 else []))
            kind = rnd.choice(["raw", "lits", "moff", "moff", "mfar", "mstraddle", "mprev", "m2"])
            blk = {"size": size, "kind": kind}
            if kind == "moff":
                blk["off"] = rnd.choice([1, size, 65534, 65535, rnd.randrange(1, 65536)])
            blocks.append(blk)
        chosen.append(blocks)
    # blocks of odd sizes (the Reader's window slice then has spare capacity) holding two matches each: one inside the
    # block, then one whose source lies in the preceding blocks
    for _ in range(60 if q else 2500):
        blocks = []
        for i in range(rnd.randrange(2, 13)):
            size = rnd.choice([120, 333, 1000, 1000, 3000, 5000, 20000, 65536])
            kind = rnd.choice(["m2", "m2", "m2", "raw", "lits", "mprev"])
            blk = {"size": size, "kind": kind}
            if kind == "m2" and rnd.random() < 0.4:
                blk["off"] = rnd.choice([65535, 65534, 2000, 40000])
            blocks.append(blk)
        chosen.append(blocks)
    cases = []
    for pi, blocks in enumerate(chosen):
        code = code_for(blocks)
        if code is None:
            continue
        plan = {"code": code, "bcs": pi % 2 == 0, "ccs": pi % 3 != 0, "seed": pi, "blocks": blocks}
        B = fl.BLOCK[code]
        total = sum(b_["size"] for b_ in blocks)
        for k in range(1 if q else 2):
            conc = [1, 4][(pi + k) % 2]
            if (pi + k) % 3 == 0:
                cfg = {"conc": conc, "mode": "writeto"}
            else:
                pool = [4096, B, 2 * B] + ([1] if total <= 150 else [])
                cfg = {"conc": conc, "mode": "read", "bufs": [rnd.choice(pool) for _ in range(rnd.randrange(1, 4))], "extra": 1}
            cases.append({"id": len(cases) + 1, "chunks": [], "plan": plan, "cfg": cfg})
    # tiny plans: the whole frame is decoded by TLC (also validates the independent encoder)
    for i in range(120 if q else 1500):
        blocks = []
        for _ in range(rnd.randrange(1, 5)):
            kind = rnd.choice(["raw", "lits", "m1", "mfar", "mprev", "mstraddle", "moff", "m2"])
            blk = {"size": rnd.choice([0, 1, 5, 12, 13, 20, 40]) if kind != "m2" else 125, "kind": kind}
            if kind == "moff":
                blk["off"] = rnd.randrange(1, 60)
            blocks.append(blk)
        plan = {"code": 4, "bcs": i % 2 == 0, "ccs": i % 3 == 0, "seed": 1000 + i, "blocks": blocks}
        cases.append({"id": len(cases) + 1, "chunks": [], "plan": plan,
                      "cfg": {"conc": [1, 4][i % 2], "mode": "read", "bufs": [rnd.choice([1, 7, 4096, 70000])], "extra": 1}})
    # the stored size of a block equals the number of bytes decoded before it (12 literals, then 3 literals + 12-byte match +
    # 5 literals = 12 stored bytes): a size word is never the legacy "total size" trailer in a frame of the current format
    for blocks in ([{"size": 12, "kind": "lits"}, {"size": 20, "kind": "m1"}], [{"size": 6, "kind": "raw"}, {"size": 6, "kind": "lits"}, {"size": 20, "kind": "m1"}, {"size": 30, "kind": "mprev"}]):
        for conc, mode in ((1, "read"), (1, "writeto"), (4, "read")):
            cases.append({"id": len(cases) + 1, "chunks": [], "plan": {"code": 4, "bcs": False, "ccs": conc == 1, "seed": 4242, "blocks": blocks},
                          "cfg": {"conc": conc, "mode": mode, "bufs": [7], "extra": 1}})
    # stored blocks of exactly the block maximum, with block checksums (block + checksum = 4 bytes more than a block)
    for code, B_ in ((4, 65536), (5, 262144)):
        for conc, mode in ((1, "read"), (4, "writeto")):
            cases.append({"id": len(cases) + 1, "chunks": [], "plan": {"code": code, "bcs": True, "ccs": True, "seed": 6161,
                                                                      "blocks": [{"size": B_, "kind": "raw"}, {"size": 1000, "kind": "mprev"}, {"size": B_, "kind": "raw"}, {"size": B_ - 1, "kind": "raw"}]},
                          "cfg": {"conc": conc, "mode": mode, "bufs": [4096], "extra": 1}})
    # several short dependent blocks in a frame that declares a content size below the block maximum (an encoder that flushes
    # often): concurrency above 1 must still fall back to sequential decoding
    for blocks in ([{"size": 1000, "kind": "lits"}, {"size": 1000, "kind": "mprev"}, {"size": 1500, "kind": "mfar"}, {"size": 700, "kind": "mstraddle"}],
                   [{"size": 300, "kind": "raw"}, {"size": 300, "kind": "moff", "off": 250}, {"size": 125, "kind": "m2"}]):
        for conc, mode in ((4, "read"), (2, "writeto"), (1, "read"), (16, "read")):
            cases.append({"id": len(cases) + 1, "chunks": [], "plan": {"code": 4, "bcs": conc == 4, "ccs": True, "seed": 5151, "blocks": blocks, "size": True},
                          "cfg": {"conc": conc, "mode": mode, "bufs": [rnd.choice([4096, 100])], "extra": 1}})
    recs, faults = fl.shard_run(b, "frame-read", cases, d, "r", extra=("--watchdog", "120s"))
    if faults:
        raise vlib.MachineryFault("frame-read failed: %s" % faults[0]["stderr"][-800:])
    ctx.evaluations += len(recs)
    ctx.distinct += len(cases)
    by_id = {c["id"]: c for c in cases}
    t1, t2 = os.path.join(d, "reader.ndjson"), os.path.join(d, "frame.ndjson")
    with open(t1, "w") as f1, open(t2, "w") as f2:
        for c in cases:
            r = recs[c["id"]]
            for e in reader_events(r):
                f1.write(json.dumps(e, separators=(",", ":")) + "\n")
            f2.write(json.dumps(frame_event(r), separators=(",", ":")) + "\n")
    big_frames(ctx, b)
    ctx.sample({"plan": cases[5]["plan"], "reader_cfg": cases[5]["cfg"], "events": reader_events(recs[cases[5]["id"]])[:8]})
    acc, rej = vlib.validate_trace(ctx, "Reader_Trace", t1, timeout=3000, max_reject=5)
    acc2, rejb = vlib.validate_trace(ctx, "LZ4Frame_Trace", t2, cfg="LZ4Frame_Trace_C16", timeout=3000, max_reject=5)
    for rj in rej + rejb:
        rec = json.loads(rj["line"])
        c = by_id[rec["case"]]
        r = recs[c["id"]]
        kinds = sorted({b_["kind"] for b_ in c["plan"]["blocks"]})
        key = "C16:%s:conc=%s:%s:blocks=%s:outcome=%s/%s:same=%s:event=%s" % (
            c["cfg"]["mode"], c["cfg"]["conc"], "+".join(kinds), "<=3" if len(c["plan"]["blocks"]) <= 3 else ">3",
            r["outcome"], r["err"], r.get("sameAsContent"), rec["ev"])
        if any(v[0] == key for v in ctx.violations):
            continue
        rr, _ = fl.shard_run(b, "frame-read", [c], d, "again", nshards=1, extra=("--watchdog", "120s"))
        r2 = rr[c["id"]]
        a1, a2 = os.path.join(d, "a1.ndjson"), os.path.join(d, "a2.ndjson")
        vlib.write_ndjson(a1, reader_events(r2))
        vlib.write_ndjson(a2, [frame_event(r2)])
        sub = vlib.Ctx(ctx.prop, ctx.tier, ctx.seed)
        x1, j1 = vlib.validate_trace(sub, "Reader_Trace", a1, shards=1)
        x2, j2 = vlib.validate_trace(sub, "LZ4Frame_Trace", a2, cfg="LZ4Frame_Trace_C16", shards=1)
        if not j1 and not j2:
            ctx.unreproducible("%s: %s" % (key, rj["line"][:300]))
            continue
        obs = {k: v for k, v in r2.items() if k not in ("bytes", "delivered", "content", "log", "rblocks")}
        obs["rblocks"] = r2["rblocks"][:60]
        ctx.violation(key, "dependent-block frame is not decoded as the format defines: %s" % key,
                      {"kind": "c16", "case": c, "observed": obs, "rejected_event": json.loads((j1 or j2)[0]["line"]) if (j1 or j2) else None})
    ctx.trusted += ["ref.EncodeFrame / ref.SerSeq (independent encoder; its small frames are decoded by TLC in this run)",
                    "verif hook VerifOnBlock (block length, window length)"]
    ctx.assumptions += ["content up to ~9 MiB per frame; offsets are chosen by class, not all 65535 values"]


def big_frames(ctx, b):
    """A frame of 1026 dependent 4 MiB blocks (4 GiB + 8 MiB of 'A', every block's first match 65535 bytes back, i.e. in the
    preceding block), generated on the fly: the Reader's 32-bit byte counters wrap on the way; the window (ReaderWindowInd:
    inductive for every number of blocks) must not notice.  Judged directly: everything delivered, all of it 'A'."""
    import subprocess
    runs = [("read", 1, 1026)] if ctx.tier == "quick" else [("read", 1, 1026), ("writeto", 1, 1026), ("read", 4, 1026), ("read", 1, 2051)]
    for mode, conc, blocks in runs:
        def once():
            p = subprocess.run([b, "big-linked", "--blocks", str(blocks), "--mode", mode, "--conc", str(conc)], stdout=subprocess.PIPE, stderr=subprocess.PIPE,
                               text=True, timeout=900, env=vlib.GOENV)
            if p.returncode != 0:
                return {"crashed": p.stderr[-1500:]}
            return json.loads(p.stdout.strip().splitlines()[-1])
        r = once()
        ctx.evaluations += 1
        ctx.distinct += 1
        ok = lambda x: not x.get("crashed") and x["err"] == "none" and not x["panicked"] and x["delivered"] == x["expected"] and x["allA"]
        if ok(r):
            continue
        r2 = once()
        if ok(r2):
            ctx.unreproducible("big linked frame (%s, conc %d, %d blocks): %s" % (mode, conc, blocks, json.dumps(r)[:300]))
            continue
        key = "C16:big-frame:%s:conc=%s:%s" % (mode, "1" if conc == 1 else ">1", "crash" if r2.get("crashed") else ("panic" if r2.get("panicked") else
                                                                                                     ("err=" + r2["err"] if r2["err"] != "none" else "wrong-content")))
        ctx.violation(key, "a dependent-block frame of %d x 4 MiB is not decoded exactly: %s" % (blocks, key),
                      {"kind": "c16-big", "mode": mode, "conc": conc, "blocks": blocks, "observed": r2})
    ctx.extra["big_linked_frames"] = len(runs)


def reader_events(r):
    ev = [{"ev": "rnew", "case": r["case"], "total": r["contentLen"], "conc": r["cfg"]["conc"], "linked": True, "declared": [0, 0, 0, 0]}]
    for blen, dlen in r["rblocks"]:
        ev.append({"ev": "rblock", "case": r["case"], "b": blen, "dict": dlen})
    if "log" in r:
        for c in r["log"]:
            ev.append(dict(c, ev="rcall", case=r["case"], st=(c.get("st") or "").replace("State", "")))
    else:
        ev.append({"ev": "rall", "case": r["case"], "n": r["deliveredLen"], "err": "eof" if r["outcome"] == "clean" else r["err"]})
    ev.append({"ev": "rend", "case": r["case"], "same": r["sameAsContent"], "prefixok": r["prefixOfContent"],
               "clean": r["outcome"] in ("clean", "error")})
    return ev


def frame_event(r):
    e = dict(r)
    e.setdefault("content", [])
    for x in ("errtext", "log", "cfg", "tag", "extraErr", "rblocks"):
        e.pop(x, None)
    return e


def replay(ctx, path):
    rp = json.load(open(path))
    b = vlib.build_harness()
    d = vlib.scratch("c16r")
    if rp.get("kind") == "c16-big":
        import subprocess
        p = subprocess.run([b, "big-linked", "--blocks", str(rp["blocks"]), "--mode", rp["mode"], "--conc", str(rp["conc"])], stdout=subprocess.PIPE,
                           stderr=subprocess.PIPE, text=True, timeout=900, env=vlib.GOENV)
        x = json.loads(p.stdout.strip().splitlines()[-1]) if p.returncode == 0 else {"crashed": True}
        if x.get("crashed") or x["err"] != "none" or x["panicked"] or x["delivered"] != x["expected"] or not x["allA"]:
            print("VIOLATION property=%s replay=%s" % (ctx.prop, path))
            return 1
        print("replay: deviation not observed")
        return 0
    c = rp["case"]
    rr, _ = fl.shard_run(b, "frame-read", [c], d, "r", nshards=1, extra=("--watchdog", "120s"))
    r2 = rr[c["id"]]
    a1, a2 = os.path.join(d, "a1.ndjson"), os.path.join(d, "a2.ndjson")
    vlib.write_ndjson(a1, reader_events(r2))
    vlib.write_ndjson(a2, [frame_event(r2)])
    x1, j1 = vlib.validate_trace(ctx, "Reader_Trace", a1, shards=1)
    x2, j2 = vlib.validate_trace(ctx, "LZ4Frame_Trace", a2, cfg="LZ4Frame_Trace_C16", shards=1)
    if j1 or j2:
        print("VIOLATION property=C16 replay=%s" % path)
        return 1
    print("replay: deviation not observed")
    return 0


def selftest(ctx):
    b = vlib.build_harness()
    d = vlib.scratch("c16s")
    c = {"id": 1, "chunks": [], "cfg": {"conc": 1, "mode": "read", "bufs": [4096], "extra": 1},
         "plan": {"code": 5, "bcs": True, "ccs": True, "seed": 3,
                  "blocks": [{"size": 65536, "kind": "raw"}, {"size": 65536, "kind": "lits"}, {"size": 40000, "kind": "mfar"}, {"size": 20, "kind": "mprev"}]}}
    rr, _ = fl.shard_run(b, "frame-read", [c], d, "st", nshards=1)
    ev = reader_events(rr[1])
    bad = json.loads(json.dumps(ev))
    k = max(i for i, e in enumerate(bad) if e["ev"] == "rblock")
    bad[k]["dict"] -= 1000           # a window that lost bytes
    for name, e, want in (("good", ev, 0), ("bad", bad, 1)):
        tp = os.path.join(d, name + ".ndjson")
        vlib.write_ndjson(tp, e)
        acc, rej = vlib.validate_trace(ctx, "Reader_Trace", tp, shards=1)
        if len(rej) != want:
            raise vlib.MachineryFault("selftest C16: %s trace gave %d rejections" % (name, len(rej)))
    print("selftest C16 ok")
    return 0
