"""C03 - see checks/blockdec.py (shared block-decoder driver)."""
from checks import blockdec


def run(ctx):
    blockdec.run(ctx, "C03")


def replay(ctx, path):
    return blockdec.replay(ctx, "C03", path)


def selftest(ctx):
    return blockdec.selftest(ctx, "C03")
