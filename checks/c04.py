"""C04 - see checks/blockdec.py (shared block-decoder driver)."""
from checks import blockdec


def run(ctx):
    blockdec.run(ctx, "C04")


def replay(ctx, path):
    return blockdec.replay(ctx, "C04", path)


def selftest(ctx):
    return blockdec.selftest(ctx, "C04")
