"""C09 - emitted frames conform to the LZ4 frame specification (modern and legacy).

 spec:  LZ4Frame.tla (ParseStrict), XXH32.tla, LZ4Block.tla, Writer.tla
 MC:    MC_LZ4Frame (parser inverts encoder, prefixes, skippable prefix), MC_Writer (block cutting, conservation)
 gen:   option vectors x input classes x entry point (Write / ReadFrom / Write+Flush); TLC's Writer histories are used by C02/C17
 val:   LZ4Frame_Trace_C09: every emitted frame is judged by TLC - byte level (TLC parses the bytes itself: magic,
        descriptor, header checksum, block sizes, block checksums over the stored bytes, end mark, content checksum,
        decoded content) for frames <= 360 bytes; field level (descriptor bits, size limits, legacy block lengths, strict
        status and content equality computed by the reference parser, which TLC re-validates on small frames in the
        same run) above.  Writer_Trace binds the same executions to Writer.tla.
"""
import json
import os
import random

import vlib
from checks import framelib as fl


def make_cases(ctx, d, zero_hc):
    q = ctx.tier == "quick"
    rnd = random.Random(ctx.seed * 31 + 9)
    cases = []

    def add(o, inp, calls, noflush=True):
        o = dict(o)
        if o.get("size") == -1:
            o["size"] = inp["len"]
        if o.get("size") == 0:
            del o["size"]
        # the HC compressor with a deep search is quadratic on long runs: keep those inputs for the low levels
        if inp["len"] > 100000 and o["level"] > 2 and inp["family"] in ("zeros", "lowentropy", "periodic", "mixed"):
            inp = dict(inp, family="text")
        cases.append({"id": len(cases) + 1, "input": inp, "opts": o, "calls": calls, "noflush": noflush})

    def bytes_in(b):
        return {"family": "bytes", "len": len(b), "seed": 0, "bytes": list(b)}

    vecs = fl.opt_vectors(rnd, 28 if q else 240, legacy_share=0.12)
    for vi, o in enumerate(vecs):
        B = fl.block_of(o)
        small = [bytes_in([]), bytes_in([65]), bytes_in(fl.XXH0), fl.input_for(rnd, 40, "text"), fl.input_for(rnd, 70, "random"),
                 fl.input_for(rnd, 200, "lowentropy")]
        for inp in small:
            add(o, inp, [{"op": "write", "n": inp["len"]}, {"op": "close"}])
        add(o, small[3], [{"op": "readfrom", "n": 0}, {"op": "close"}])
        add(o, bytes_in([]), [{"op": "readfrom", "n": 0}, {"op": "close"}])
        add(o, fl.input_for(rnd, 60, "text"), [{"op": "write", "n": 20}, {"op": "flush"}, {"op": "write", "n": 25}, {"op": "flush"},
                                               {"op": "write", "n": 15}, {"op": "close"}], noflush=False)
        if not o["legacy"] and B <= 262144:
            # a short Write that leaves bytes pending, then one of more than a block, then the rest
            add(o, fl.input_for(rnd, 2 * B + 157, "text"), [{"op": "write", "n": 100}, {"op": "write", "n": B + 50}, {"op": "write", "n": B + 7}, {"op": "close"}])
        if o["legacy"]:
            if vi % 3 == 0 or not q:
                add(o, fl.input_for(rnd, B + 1, "text"), [{"op": "write", "n": B + 1}, {"op": "close"}])
            continue
        if B > 65536 and q and vi % 4:
            continue
        for n, fam in ((B - 1, "text"), (B, "mixed"), (B + 1, "zeros"), (2 * B + 3, "text"), (B + 17, "random")):
            if B >= (1 << 20) and n > B + 17 and q:
                continue
            inp = fl.input_for(rnd, n, fam)
            if rnd.random() < 0.5:
                add(o, inp, [{"op": "write", "n": n}, {"op": "close"}])
            else:
                add(o, inp, [{"op": "readfrom", "n": 0}, {"op": "close"}])
    # consecutive blocks stored differently (raw, compressed, raw, ...), sequential and concurrent
    for o in vecs[:10 if q else 80]:
        if o["legacy"]:
            continue
        B = fl.block_of(o)
        if B > 262144 and q:
            continue
        for seed in (0, 1, 2):
            inp = {"family": "blockmix", "len": 3 * B + 11, "seed": seed, "p1": B}
            add(o, inp, [{"op": "write", "n": inp["len"]}, {"op": "close"}] if seed else [{"op": "readfrom", "n": 0}, {"op": "close"}])
    # content sizes crafted by TLC so that the header-checksum byte is 0x00
    for z in zero_hc:
        o = {"code": z["code"], "bcs": z["bcs"], "ccs": z["ccs"], "level": 0, "conc": 1 + z["code"] % 2, "legacy": False,
             "handler": False, "size": z["size"]}
        add(o, fl.input_for(rnd, 33, "text"), [{"op": "write", "n": 33}, {"op": "close"}])
    # legacy frame with an incompressible 8 MiB block (stored form is larger than the block)
    add({"code": 7, "bcs": False, "ccs": False, "level": 0, "conc": 1, "legacy": True, "handler": False},
        fl.input_for(rnd, fl.LEGACY_BLOCK + 5, "random"), [{"op": "write", "n": fl.LEGACY_BLOCK + 5}, {"op": "close"}])
    return cases


def why(case, w, ev):
    o = w["opts"]
    f = w["frames"][0] if w["frames"] else {"status": "none", "blocks": []}
    bits = ["legacy" if o["legacy"] else "frame"]
    if f["status"] != "ok":
        bits.append("strict-parse=" + f["status"])
        if o["legacy"] and f["status"] == "block_too_big":
            bits.append("raw-or-oversized-legacy-block")
    elif not f.get("same", True):
        bits.append("content-differs")
    else:
        bits.append("descriptor-or-limits")
    return "C09:" + ":".join(bits)


def run(ctx):
    q = ctx.tier == "quick"
    ctx.rule = ("option vectors (block size x block checksum x content checksum x size x level x concurrency x legacy, every value of "
                "every option, seeded pairing) x inputs {empty, 1 byte, the 4 bytes whose XXH32 is 0, small text / random / low-entropy, "
                "B-1, B, B+1, 2B+3, incompressible B+17, legacy 8 MiB+1 and incompressible 8 MiB+5} x {Write, ReadFrom, Write+Flush}; the compressing "
                "reader as emitter: options x inputs {0, 1, 40, 70, 300, B, B+1, 2B+3} x read patterns x {fresh, reused after a complete stream, "
                "reused after an abandoned stream}. "
                "distinct = distinct (options, input, history) cases with a non-empty input")
    b = vlib.build_harness()
    d = vlib.scratch("c09")
    ctx.mc("MC_LZ4Frame", timeout=900)
    ctx.mc("MC_Writer", timeout=900)
    z = ctx.mc("Gen_HeaderZero", want_cases=True, timeout=600)
    if len(z.cases) != 16:
        raise vlib.MachineryFault("Gen_HeaderZero produced %d rows" % len(z.cases))
    cases = make_cases(ctx, d, sorted(z.cases, key=lambda r: json.dumps(r, sort_keys=True)))
    by_id = {c["id"]: c for c in cases}
    recs, faults = fl.shard_run(b, "frame-write", cases, d, "w")
    if faults:
        raise vlib.MachineryFault("frame-write failed: %s" % faults[0]["stderr"][-800:])
    ctx.evaluations += len(recs)
    ctx.distinct += len({(json.dumps(c["opts"], sort_keys=True), json.dumps(c["input"], sort_keys=True), len(c["calls"]))
                         for c in cases if c["input"]["len"] > 0})
    wruns = [recs[c["id"]] for c in cases]

    # binding to the Writer model
    rej = fl.validate_writer_runs(ctx, wruns, d)
    for rj in rej:
        rec = json.loads(rj["line"])
        c = by_id[rec["case"]]
        confirm(ctx, b, d, c, "writer-model:%s:%s" % (rec.get("op", rec["ev"]), rec.get("err", rec.get("status"))))

    # the frames themselves
    tp = os.path.join(d, "emit.ndjson")
    with open(tp, "w") as f:
        for c in cases:
            f.write(json.dumps(fl.emit_events(recs[c["id"]], c["noflush"]), separators=(",", ":")) + "\n")
    acc, rej = vlib.validate_trace(ctx, "LZ4Frame_Trace", tp, cfg="LZ4Frame_Trace_C09", timeout=1800, max_reject=6)
    for rj in rej:
        rec = json.loads(rj["line"])
        confirm(ctx, b, d, by_id[rec["case"]], None)
    small = next(e for e in (fl.emit_events(recs[c["id"]]) for c in cases) if e["ev"] == "emit" and len(e["input"]) > 4)
    ctx.sample({"emit_event_byte_level": small})
    big = next(e for e in (fl.emit_events(recs[c["id"]]) for c in cases) if e["ev"] == "emitbig")
    big = json.loads(json.dumps(big))
    big["ref"]["blocks"] = big["ref"]["blocks"][:3]
    ctx.sample({"emit_event_field_level": big})

    creader_frames(ctx, b, d)

    # ref-conformance: ref.ParseFrame vs LZ4Frame!Parse on the small frames and mutants of them
    rnd = random.Random(ctx.seed)
    rc = []
    for c in cases:
        w = recs[c["id"]]
        if not w["small"]:
            continue
        bs = w["bytes"]
        rc.append({"id": len(rc) + 1, "bytes": bs})
        for _ in range(3 if q else 12):
            m = list(bs)
            k = rnd.randrange(4)
            if k == 0 and m:
                m = m[:rnd.randrange(len(m))]
            elif k == 1 and m:
                m[rnd.randrange(len(m))] ^= 1 << rnd.randrange(8)
            elif k == 2 and m:
                m[rnd.randrange(min(len(m), 16))] = rnd.randrange(256)
            else:
                m = [0x50 + rnd.randrange(16), 0x2A, 0x4D, 0x18, 3, 0, 0, 0, 1, 2, 3] + m
            rc.append({"id": len(rc) + 1, "bytes": m})
    rcp, rco = os.path.join(d, "rc.ndjson"), os.path.join(d, "rc-out.ndjson")
    vlib.write_ndjson(rcp, rc)
    vlib.harness(b, "frame-refparse", "--cases", rcp, "--out", rco)
    before = ctx.traces
    acc, rej = vlib.validate_trace(ctx, "LZ4Frame_Trace", rco, cfg="LZ4Frame_Trace_C09", timeout=1800)
    ctx.traces = before
    ctx.extra["ref_conformance_records"] = 2 * len(rc)
    if rej:
        raise vlib.MachineryFault("ref.ParseFrame disagrees with LZ4Frame.tla on %s" % rej[0]["line"][:400])
    ctx.trusted += ["ref.ParseFrame / ref.XXH32 / ref.DecodeBlock for frames > 360 bytes (%d small-frame results re-derived by TLC this run)"
                    % (2 * len(rc))]
    ctx.assumptions += ["content sizes are option values {absent, 1, 123, 2^32, 2^64-1} (the Writer does not check them against the data)",
                        "inputs up to 2 blocks + 3 bytes (8 MiB + 5 for legacy)"]


def creader_cases(ctx):
    """the compressing reader as the emitter: options x inputs x read patterns, fresh and reused (earlier stream read to the
    end or abandoned with bytes parked in the overflow buffer)"""
    q = ctx.tier == "quick"
    rnd = random.Random(ctx.seed * 37 + 99)
    cases = []
    for i in range(8 if q else 120):
        o = {"code": 4 + (i % 2), "bcs": i % 2 == 0, "ccs": i % 3 != 1, "level": [0, 1, 3, 9][i % 4], "conc": 1, "legacy": False}
        B = fl.BLOCK[o["code"]]
        for n, fam in ((0, "text"), (1, "text"), (40, "text"), (70, "random"), (300, "lowentropy"), (B, "mixed"), (B + 1, "text"), (2 * B + 3, "blockmix")):
            if q and o["code"] == 5 and n > B + 1:
                continue
            oo = dict(o)
            if i % 3 == 0 and n:
                oo["size"] = n
            inp = fl.input_for(rnd, n, fam)
            inp["p1"] = B
            for reuse in (0, 1, 2):
                c = {"id": len(cases) + 1, "input": inp, "opts": oo, "reads": rnd.choice([[1 << 20], [4096], [7, 300], [1], [40]] if n < 5000 else [[1 << 20], [4096], [70000]])}
                if reuse == 1:
                    c.update(preCode=rnd.choice([4, 5, 6]), preLen=rnd.choice([0, 10, 300000]))
                elif reuse == 2:
                    c.update(preCode=rnd.choice([4, 5, 6]), preLen=rnd.choice([300, 70000, 300000]), preCalls=rnd.choice([1, 2, 5]), preBuf=rnd.choice([1, 7, 16, 40]))
                cases.append(c)
    return cases


def creader_frames(ctx, b, d):
    from checks import c18
    cases = creader_cases(ctx)
    recs, faults = fl.shard_run(b, "cr-run", cases, d, "cr")
    if faults:
        raise vlib.MachineryFault("cr-run failed: %s" % faults[0]["stderr"][-800:])
    ctx.evaluations += len(recs)
    ctx.distinct += len(cases)
    tp = os.path.join(d, "cr-emit.ndjson")
    by_id = {c["id"]: c for c in cases}
    with open(tp, "w") as f:
        for c in cases:
            r = recs[c["id"]]
            if r["hung"] or r["panicked"]:
                confirm_creader(ctx, b, d, c)
                continue
            f.write(json.dumps(c18.emit_event(r), separators=(",", ":")) + "\n")
    acc, rej = vlib.validate_trace(ctx, "LZ4Frame_Trace", tp, cfg="LZ4Frame_Trace_C09", timeout=1800, max_reject=6)
    for rj in rej:
        confirm_creader(ctx, b, d, by_id[json.loads(rj["line"])["case"]])
    ctx.extra["compressing_reader_frames"] = len(cases)


def confirm_creader(ctx, b, d, case):
    from checks import c18
    recs, faults = fl.shard_run(b, "cr-run", [case], d, "cragain", nshards=1)
    if faults:
        raise vlib.MachineryFault("cr-run failed on re-execution")
    r = recs[case["id"]]
    bad = r["hung"] or bool(r["panicked"])
    if not bad:
        sub = vlib.Ctx(ctx.prop, ctx.tier, ctx.seed)
        tp = os.path.join(d, "cragain-emit.ndjson")
        vlib.write_ndjson(tp, [c18.emit_event(r)])
        acc, rej = vlib.validate_trace(sub, "LZ4Frame_Trace", tp, cfg="LZ4Frame_Trace_C09", shards=1)
        bad = bool(rej)
    if not bad:
        ctx.unreproducible("compressing reader case %s" % json.dumps(case)[:300])
        return
    reuse = "abandoned" if case.get("preCalls") else ("reused" if case.get("preCode") else "fresh")
    st = "hang-or-panic" if (r["hung"] or r["panicked"]) else r["ref"]["status"]
    key = "C09:compressing-reader:%s:strict-parse=%s" % (reuse, st)
    slim = {k: v for k, v in r.items() if k not in ("calls", "bytes", "input")}
    slim["ref"] = dict(slim["ref"], blocks=slim["ref"]["blocks"][:8])
    ctx.violation(key, "frame emitted by the compressing reader is not accepted by the frame specification: %s" % key,
                  {"kind": "c09cr", "case": case, "observed": slim})


def confirm(ctx, b, d, case, key):
    """Re-execute one case and judge the fresh record with both trace specifications."""
    # a concurrent Writer's deviation may depend on the schedule: try again several times
    for attempt in range(20 if case["opts"].get("conc", 1) != 1 else 2):
        recs, faults = fl.shard_run(b, "frame-write", [case], d, "again", nshards=1)
        if faults:
            raise vlib.MachineryFault("frame-write failed on re-execution")
        w = recs[case["id"]]
        sub = vlib.Ctx(ctx.prop, ctx.tier, ctx.seed)
        rej = fl.validate_writer_runs(sub, [w], d)
        tp = os.path.join(d, "again-emit.ndjson")
        vlib.write_ndjson(tp, [fl.emit_events(w, case["noflush"])])
        acc, rej2 = vlib.validate_trace(sub, "LZ4Frame_Trace", tp, cfg="LZ4Frame_Trace_C09", shards=1)
        if rej or rej2:
            break
    if not rej and not rej2:
        ctx.unreproducible("rejection not reproducible for case %s" % json.dumps(case)[:300])
        return
    k = key if (rej and not rej2 and key) else why(case, w, None)
    slim = json.loads(json.dumps(w))
    for fr in slim["frames"]:
        fr["blocks"] = fr["blocks"][:8]
    slim["sinkCalls"] = slim["sinkCalls"][:40]
    ctx.violation(k, "emitted frame is not accepted by the frame specification: %s" % k,
                  {"kind": "c09", "case": case, "observed": slim})


def replay(ctx, path):
    rp = json.load(open(path))
    if rp.get("kind") == "c09cr":
        confirm_creader(ctx, vlib.build_harness(), vlib.scratch("c09r"), rp["case"])
        return
    b = vlib.build_harness()
    d = vlib.scratch("c09r")
    case = rp["case"]
    recs, faults = fl.shard_run(b, "frame-write", [case], d, "again", nshards=1)
    w = recs[case["id"]]
    rej = fl.validate_writer_runs(ctx, [w], d)
    tp = os.path.join(d, "emit.ndjson")
    vlib.write_ndjson(tp, [fl.emit_events(w, case.get("noflush", True))])
    acc, rej2 = vlib.validate_trace(ctx, "LZ4Frame_Trace", tp, cfg="LZ4Frame_Trace_C09", shards=1)
    if rej or rej2:
        print("VIOLATION property=C09 replay=%s" % path)
        return 1
    print("replay: deviation not observed")
    return 0


def selftest(ctx):
    b = vlib.build_harness()
    d = vlib.scratch("c09s")
    case = {"id": 1, "input": {"family": "text", "len": 50, "seed": 5}, "noflush": True,
            "opts": {"code": 4, "bcs": True, "ccs": True, "level": 0, "conc": 1, "legacy": False, "handler": False},
            "calls": [{"op": "write", "n": 50}, {"op": "close"}]}
    recs, _ = fl.shard_run(b, "frame-write", [case], d, "st", nshards=1)
    w = recs[1]
    good = fl.emit_events(w)
    bad = json.loads(json.dumps(good))
    bad["case"] = 2
    bad["bytes"][-1] ^= 1            # content checksum
    bad2 = json.loads(json.dumps(good))
    bad2["case"] = 3
    bad2["bytes"][6] ^= 1            # header checksum
    tp = os.path.join(d, "t.ndjson")
    vlib.write_ndjson(tp, [good, bad, bad2])
    acc, rej = vlib.validate_trace(ctx, "LZ4Frame_Trace", tp, cfg="LZ4Frame_Trace_C09", shards=1)
    if acc != 1 or len(rej) != 2:
        raise vlib.MachineryFault("selftest C09: corrupted frames not rejected (acc=%d rej=%d)" % (acc, len(rej)))
    w2 = json.loads(json.dumps(w))
    w2["calls"][1]["calls"] += 1     # one sink call too many during Write
    w2["calls"][2]["calls"] += 1
    rej = fl.validate_writer_runs(ctx, [w2], d)
    if len(rej) != 1:
        raise vlib.MachineryFault("selftest C09: corrupted sink-call count not rejected by Writer_Trace")
    print("selftest C09 ok")
    return 0
