"""C13 - checksums equal reference XXH32 for every input, chunking and length.

 spec:  Bits32.tla, XXH32.tla (one-shot function + reference streaming machine)
 MC:    MC_XXH32       streaming digest = one-shot digest over the 16 x 49 x 5 write graph
 gen:   MC_XXH32       every maximal behaviour of that graph -> real streaming + one-shot hash
        Gen_XXH32Inject  states with totals around 2^32 / 2^33 / 2^64-1 -> injected into the real object
 val:   XXH32_Trace    seeded random inputs and splits, the real 2^32-1 .. 2^32+16 byte runs,
                       and the ref-conformance records of ref.XXH32 / ref.Stream
"""
import json
import os

import vlib


def key_of_event(rec):
    ev = rec.get("ev")
    if ev == "final":
        t = rec["total"]
        big = t[2] > 0 or t[3] > 0
        return "final:total%s2^32:carry=%d" % (">=" if big else "<", len(rec["buf"]))
    return "%s" % ev


def run(ctx):
    q = ctx.tier == "quick"
    ctx.rule = ("gen: every maximal behaviour of the MC_XXH32 write graph (first write 0..15, second 0..48, third in "
                "{0,1,15,16,17}) and every injected state; val: seeded random byte strings (0..200/1024 bytes) with random "
                "splits plus real runs of 2^32-1..2^32+16 bytes. distinct = distinct write-length sequences with a "
                "non-empty input + distinct injected states + distinct recorded inputs of length >= 1")
    b = vlib.build_harness()
    d = vlib.scratch("c13")

    # 1. design level + case export
    r = ctx.mc("MC_XXH32", want_cases=True, timeout=600)
    if len(r.cases) != 3920:
        raise vlib.MachineryFault("MC_XXH32 exported %d cases, expected 3920" % len(r.cases))
    cases = os.path.join(d, "cases.ndjson")
    vlib.write_ndjson(cases, r.cases)
    ctx.sample({"gen_case": {k: r.cases[1234][k] for k in ("writes", "oneshot")}, "data_len": len(r.cases[1234]["data"])})
    mm = os.path.join(d, "mm.ndjson")
    s = vlib.harness(b, "xxh-replay", "--cases", cases, "--out", mm)
    ctx.evaluations += s["steps"] + s["cases"]
    ctx.distinct += s["distinct_nontrivial"]
    ctx.exhaustive = True
    for m in vlib.read_ndjson(mm):
        # deterministic: re-execute the single case
        one = os.path.join(d, "one.ndjson")
        vlib.write_ndjson(one, [m["input"]])
        s1 = vlib.harness(b, "xxh-replay", "--cases", one, "--out", os.path.join(d, "mm1.ndjson"))
        if s1["mismatches"] > 0:
            ctx.violation("gen:" + m["what"].split(" after")[0], m["what"],
                          {"kind": "xxh-gen", "cmd": "xxh-replay", "case": m["input"], "expect": m["expect"], "got": m["got"]})

    # 2. injected states
    r = ctx.mc("Gen_XXH32Inject", want_cases=True, timeout=300, workers=1)
    inj = os.path.join(d, "inj.ndjson")
    vlib.write_ndjson(inj, r.cases)
    if len(r.cases) < 400:
        raise vlib.MachineryFault("Gen_XXH32Inject exported %d cases" % len(r.cases))
    s = vlib.harness(b, "xxh-inject", "--cases", inj, "--out", mm)
    ctx.evaluations += s["cases"]
    ctx.distinct += s["distinct_nontrivial"]
    for m in vlib.read_ndjson(mm):
        t = m["input"]["total"]
        big = t[2] > 0 or t[3] > 0
        ctx.violation("inject:total%s2^32:carry=%d" % (">=" if big else "<", len(m["input"]["buf"])),
                      "digest of injected state differs from the reference rule",
                      {"kind": "xxh-inject", "cmd": "xxh-inject", "case": m["input"], "expect": m["expect"], "got": m["got"]})

    # 3. ref-conformance of the Go reference (machinery, exit 2 on disagreement)
    rc = os.path.join(d, "refconf.ndjson")
    vlib.harness(b, "xxh-refconf", "--seed", ctx.seed, "--n", 400 if q else 4000, "--out", rc)
    acc, rej = vlib.validate_trace(ctx, "XXH32_Trace", rc)
    ctx.traces -= acc      # reference records are not implementation traces
    ctx.extra["ref_conformance_records"] = acc
    if rej:
        raise vlib.MachineryFault("ref.XXH32 disagrees with XXH32.tla: %s" % rej[0]["line"][:300])

    # 4. recorded executions of the real code
    tr = os.path.join(d, "trace.ndjson")
    s = vlib.harness(b, "xxh-record", "--seed", ctx.seed, "--n", 1500 if q else 40000,
                     "--maxlen", 200 if q else 1024, "--out", tr)
    ctx.evaluations += s["events"]
    seen = set()
    for ln in open(tr):
        if '"oneshot"' in ln:
            e = json.loads(ln)
            if e["data"]:
                seen.add(bytes(e["data"]))
    ctx.distinct += len(seen)
    acc, rej = vlib.validate_trace(ctx, "XXH32_Trace", tr, timeout=1800)
    ctx.sample({"recorded_events": [json.loads(x) for x in open(tr).read().splitlines()[:3]]})
    for rj in rej:
        confirm_trace_rejection(ctx, b, d, rj)

    # 5. real totals around 2^32
    big = os.path.join(d, "big.ndjson")
    # (thorough: the same 2^32 - 1 .. 2^32 + 16 bytes also through single ChecksumZero calls; 4 GiB of memory)
    s = vlib.harness(b, "xxh-big", "--out", big, *([] if ctx.tier == "quick" else ["--oneshot"]), timeout=1800)
    ctx.evaluations += s["events"]
    ctx.distinct += s["cases"]
    acc, rej = vlib.validate_trace(ctx, "XXH32_Trace", big, shards=4)
    ctx.sample({"real_4GiB_final_state": json.loads(open(big).readline())})
    if rej:
        # re-execute: the big run is deterministic; run it again once and compare the same records
        big2 = os.path.join(d, "big2.ndjson")
        vlib.harness(b, "xxh-big", "--out", big2, *([] if ctx.tier == "quick" else ["--oneshot"]), timeout=1800)
        recs2 = {r_["case"]: r_ for r_ in vlib.read_ndjson(big2)}
        for rj in rej:
            rec = json.loads(rj["line"])
            if recs2.get(rec["case"]) == rec:
                ctx.violation(key_of_event(rec), "streaming digest after really writing %s bytes differs from the reference"
                              % describe_total(rec["total"]),
                              {"kind": "xxh-big", "cmd": "xxh-big", "record": rec, "tlc": rj["tlc"]})
            else:
                raise vlib.MachineryFault("xxh-big record not reproducible")
    frame_level(ctx, b, d)
    ctx.trusted += ["ref.XXH32/ref.Stream (Go transcription of XXH32.tla; %d records recomputed by TLC this run)"
                    % ctx.extra["ref_conformance_records"]]
    ctx.assumptions += ["amd64: the arm assembly of xxh32 is not executed on this host",
                        "totals beyond 2^32+16 are reached by state injection, not by really writing"]


def describe_total(t):
    return "2^32%+d" % ((t[0] + (t[1] << 16) + (t[2] << 32) + (t[3] << 48)) - (1 << 32))


def confirm_trace_rejection(ctx, b, d, rj):
    """Re-execute the rejected case on the real code and validate the fresh record."""
    one = os.path.join(d, "rej.ndjson")
    with open(one, "w") as f:
        f.write("\n".join(rj["case_lines"]) + "\n")
    again = os.path.join(d, "again.ndjson")
    vlib.harness(b, "xxh-rerun", "--in", one, "--out", again)
    sub = vlib.Ctx(ctx.prop, ctx.tier, ctx.seed)
    acc, rej2 = vlib.validate_trace(sub, "XXH32_Trace", again, shards=1)
    if rej2:
        rec = json.loads(rej2[0]["line"])
        ctx.violation("trace:" + key_of_event(rec), "recorded %s event is not a behaviour of XXH32.tla" % rec.get("ev"),
                      {"kind": "xxh-trace", "cmd": "xxh-rerun", "lines": [json.loads(x) for x in rj["case_lines"]],
                       "rejected_record": rec, "tlc": rej2[0]["tlc"]})
    else:
        raise vlib.MachineryFault("trace rejection did not reproduce on re-execution: %s" % rj["line"][:300])


def replay(ctx, path):
    """Re-execute a replay file; exit 1 if the deviation shows again."""
    rp = json.load(open(path))
    b = vlib.build_harness()
    d = vlib.scratch("c13r")
    kind = rp["kind"]
    if kind in ("xxh-gen", "xxh-inject"):
        one = os.path.join(d, "one.ndjson")
        vlib.write_ndjson(one, [rp["case"]])
        s = vlib.harness(b, rp["cmd"], "--cases", one, "--out", os.path.join(d, "mm.ndjson"))
        bad = s["mismatches"] > 0
    elif kind == "xxh-lives":
        from checks import framelib as fl
        bad = False
        for _ in range(5):
            again, _f = fl.shard_run(b, "pipe-run", [rp["case"]], d, "rl", nshards=1, extra=("--watchdog", "30s"))
            r = again.get(rp["case"]["id"])
            if r and not r["hung"] and not r.get("lastSegOK"):
                bad = True
                break
    elif kind in ("xxh-frame", "xxh-frame-read"):
        from checks import framelib as fl
        if kind == "xxh-frame":
            again, _f = fl.shard_run(b, "frame-write", [rp["case"]], d, "rf", nshards=1)
            t2 = os.path.join(d, "rf.ndjson")
            vlib.write_ndjson(t2, [fl.emit_events(again[rp["case"]["id"]])])
            acc, rej = vlib.validate_trace(ctx, "LZ4Frame_Trace", t2, cfg="LZ4Frame_Trace_C09", shards=1)
            bad = bool(rej)
        else:
            again, _f = fl.shard_run(b, "frame-read", [rp["case"]], d, "rf", nshards=1)
            r = again[rp["case"]["id"]]
            bad = r["outcome"] != "clean" or not r["sameAsContent"]
    elif kind == "xxh-trace":
        one = os.path.join(d, "rej.ndjson")
        vlib.write_ndjson(one, rp["lines"])
        again = os.path.join(d, "again.ndjson")
        vlib.harness(b, "xxh-rerun", "--in", one, "--out", again)
        acc, rej = vlib.validate_trace(ctx, "XXH32_Trace", again, shards=1)
        bad = bool(rej)
    else:
        big = os.path.join(d, "big.ndjson")
        vlib.harness(b, "xxh-big", "--out", big, timeout=1200)
        acc, rej = vlib.validate_trace(ctx, "XXH32_Trace", big, shards=4)
        bad = bool(rej)
    if bad:
        print("VIOLATION property=%s replay=%s" % (ctx.prop, path))
        return 1
    print("replay: deviation not observed")
    return 0


def selftest(ctx):
    """Demonstrate the binding: a corrupted recorded field must be rejected, a wrong
    expectation must be reported by the replayer."""
    b = vlib.build_harness()
    d = vlib.scratch("c13s")
    tr = os.path.join(d, "t.ndjson")
    vlib.harness(b, "xxh-record", "--seed", 7, "--n", 40, "--out", tr)
    lines = open(tr).read().splitlines()
    k = next(i for i, x in enumerate(lines) if '"write"' in x and i > 20)
    rec = json.loads(lines[k])
    rec["h"][1] ^= 1
    lines[k] = json.dumps(rec, separators=(",", ":"))
    open(tr, "w").write("\n".join(lines) + "\n")
    acc, rej = vlib.validate_trace(ctx, "XXH32_Trace", tr, shards=1)
    if len(rej) != 1 or json.loads(rej[0]["line"])["case"] != rec["case"]:
        raise vlib.MachineryFault("selftest: corrupted digest was not rejected")
    r = ctx.mc("MC_XXH32", want_cases=True)
    c = r.cases[100]
    c["writes"][1]["h"][0] ^= 1
    one = os.path.join(d, "one.ndjson")
    vlib.write_ndjson(one, [c])
    s = vlib.harness(b, "xxh-replay", "--cases", one, "--out", os.path.join(d, "mm.ndjson"))
    if s["mismatches"] != 1:
        raise vlib.MachineryFault("selftest: wrong expectation not reported by the replayer")
    print("selftest C13 ok")
    return 0


def frame_level(ctx, b, d):
    """The checksum as it is used in frames: header byte, block and content checksums of frames emitted by the Writer are
    recomputed by TLC (LZ4Frame!ParseStrict over XXH32.tla), and frames written by the independent encoder - whose checksum
    fields come from the reference function - must be accepted by the Reader (so both directions use reference XXH32)."""
    import random
    from checks import framelib as fl
    rnd = random.Random(ctx.seed + 1313)
    cases = []
    for i in range(24):
        o = {"code": 4 + i % 2, "bcs": i % 2 == 0, "ccs": i % 3 != 2, "level": 0, "conc": 1 + (i % 2) * 3, "legacy": False, "handler": False}
        n = [0, 1, 16, 17, 100, 333][i % 6]
        if i % 4 == 1:
            o["size"] = [n or 5, 123, 1 << 32, (1 << 64) - 1][(i // 4) % 4]
        inp = fl.input_for(rnd, n, rnd.choice(["text", "random"]))
        cases.append({"id": i + 1, "input": inp, "opts": o, "calls": [{"op": "write", "n": n}, {"op": "close"}]})
    # ReadFrom of an exact multiple of the block size ends with an EMPTY block: its checksum field is XXH32 of no bytes
    for n in (0, 65536, 131072):
        for conc in (1, 4):
            cases.append({"id": len(cases) + 1, "input": fl.input_for(rnd, n, "text"),
                          "opts": {"code": 4, "bcs": True, "ccs": conc == 1, "level": 0, "conc": conc, "legacy": False, "handler": False},
                          "calls": [{"op": "readfrom", "n": 0}, {"op": "close"}]})
    recs, faults = fl.shard_run(b, "frame-write", cases, d, "c13w")
    if faults:
        raise vlib.MachineryFault("frame-write failed: %s" % faults[0]["stderr"][-500:])
    tp = os.path.join(d, "c13-emit.ndjson")
    vlib.write_ndjson(tp, [fl.emit_events(recs[c["id"]]) for c in cases])
    acc, rej = vlib.validate_trace(ctx, "LZ4Frame_Trace", tp, cfg="LZ4Frame_Trace_C09", timeout=900)
    ctx.evaluations += len(cases)
    for rj in rej:
        rec = json.loads(rj["line"])
        c = cases[rec["case"] - 1]
        again, _ = fl.shard_run(b, "frame-write", [c], d, "c13again", nshards=1)
        t2 = os.path.join(d, "c13-again.ndjson")
        vlib.write_ndjson(t2, [fl.emit_events(again[c["id"]])])
        sub = vlib.Ctx(ctx.prop, ctx.tier, ctx.seed)
        a2, rej2 = vlib.validate_trace(sub, "LZ4Frame_Trace", t2, cfg="LZ4Frame_Trace_C09", shards=1)
        if rej2:
            st = again[c["id"]]["frames"][0]["status"]
            ctx.violation("frame:%s:size=%s" % (st, "yes" if c["opts"].get("size") else "no"),
                          "a checksum field of an emitted frame is not reference XXH32 (strict parse: %s)" % st,
                          {"kind": "xxh-frame", "case": c, "frame": again[c["id"]].get("bytes")})
    # frames from the independent encoder, read by the real Reader
    rc = []
    for i in range(24):
        blocks = [{"size": rnd.choice([0, 1, 16, 40, 300]), "kind": rnd.choice(["raw", "lits", "m1"])} for _ in range(1 + i % 3)]
        rc.append({"id": i + 1, "chunks": [], "cfg": {"conc": 1 + (i % 2) * 3, "mode": ["read", "writeto"][i % 2], "bufs": [4096]},
                   "plan": {"code": 4, "bcs": True, "ccs": True, "seed": 500 + i, "blocks": blocks}})
    rr, faults = fl.shard_run(b, "frame-read", rc, d, "c13r")
    ctx.evaluations += len(rc)
    for c in rc:
        r = rr[c["id"]]
        if r["outcome"] != "clean" or not r["sameAsContent"]:
            ctx.violation("frame-read:%s" % r["err"], "the Reader rejects a frame whose checksum fields are reference XXH32 (%s)" % r["err"],
                          {"kind": "xxh-frame-read", "case": c, "observed": {k: v for k, v in r.items() if k not in ("bytes", "delivered", "content")}})
    # the content hash across the lives of one Writer: a frame abandoned by Reset while blocks are still in the concurrent
    # pipeline (slow sink), then a new frame - its content checksum must again be the reference XXH32 of its own content
    B = 65536
    lc = []
    for i in range(12):
        total = (4 + i % 3) * B + [0, 5, 1000][i % 3]
        mid = (2 + i % 2) * B
        lc.append({"id": i + 1, "kind": "writer", "lives": True, "input": {"family": "text", "len": total, "seed": 70 + i},
                   "opts": {"code": 4, "bcs": i % 2 == 0, "ccs": True, "level": 0, "conc": [4, 2, 16][i % 3], "legacy": False, "handler": False},
                   "calls": [{"op": "write", "n": mid}, {"op": "reset"}, {"op": "write", "n": total - mid}, {"op": "close"}],
                   "seed": ctx.seed * 100 + i, "perturb": 0, "poison": False, "slowio": [300, 1000, 50][i % 3]})
    lr, faults = fl.shard_run(b, "pipe-run", lc, d, "c13l", extra=("--watchdog", "30s"))
    if faults:
        raise vlib.MachineryFault("pipe-run failed: %s" % faults[0]["stderr"][-500:])
    ctx.evaluations += len(lc)
    for c in lc:
        r = lr.get(c["id"])
        if r is None or r["hung"] or r.get("lastSegOK"):
            continue            # hangs and crashes belong to C08 / C17
        ok = 0
        for _ in range(5):
            again, _f = fl.shard_run(b, "pipe-run", [c], d, "c13lagain", nshards=1, extra=("--watchdog", "30s"))
            if again.get(c["id"]) and not again[c["id"]].get("lastSegOK") and not again[c["id"]]["hung"]:
                ctx.violation("frame:content-checksum-after-reset", "the frame written after Reset of a concurrent Writer with blocks in flight is not "
                              "accepted by the strict reference parse (content checksum != reference XXH32 of its content)",
                              {"kind": "xxh-lives", "case": c, "observed": {k: v for k, v in again[c["id"]].items() if k != "events"}})
                break
            ok += 1
        if ok == 5:
            ctx.unreproducible("frame after Reset rejected once, accepted 5 times: case %s" % json.dumps(c)[:200])
