"""Shared driver of C05 (acceptance is sound), C06 (truncation is never a clean end) and C07 (safe termination
on arbitrary input): valid base frames are written by the real Writer, transformed (bit flips at every structural
field, byte substitutions, block deletion / duplication / swap, splices, every cut position, hostile field values,
long repetitions), read by the real Reader in every configuration class, and each observation is judged by TLC
(LZ4Frame_Trace_<prop>): at byte level TLC parses the very bytes with LZ4Frame!ParseLenient, at field level it
uses the reference parser's summary (re-validated on the byte-level records of the same run).
"""
import json
import os
import random

import vlib
from checks import framelib as fl

FRAME_MAGIC = [4, 34, 77, 24]
LEGACY_MAGIC = [2, 33, 76, 24]


def xxh32(data, seed=0):
    """XXH32 (transcribed from spec/XXH32.tla; the header checksums built with it are re-validated by the code itself: a
    wrong one just gives a header the Reader rejects, which the case then reports as such)"""
    P1, P2, P3, P4, P5, M = 2654435761, 2246822519, 3266489917, 668265263, 374761393, 0xFFFFFFFF
    rotl = lambda x, r: ((x << r) | (x >> (32 - r))) & M
    n, i = len(data), 0
    if n >= 16:
        v = [(seed + P1 + P2) & M, (seed + P2) & M, seed & M, (seed - P1) & M]
        while i + 16 <= n:
            for k in range(4):
                w = int.from_bytes(bytes(data[i + 4 * k:i + 4 * k + 4]), "little")
                v[k] = (rotl((v[k] + w * P2) & M, 13) * P1) & M
            i += 16
        h = (rotl(v[0], 1) + rotl(v[1], 7) + rotl(v[2], 12) + rotl(v[3], 18)) & M
    else:
        h = (seed + P5) & M
    h = (h + n) & M
    while i + 4 <= n:
        w = int.from_bytes(bytes(data[i:i + 4]), "little")
        h = (rotl((h + w * P3) & M, 17) * P4) & M
        i += 4
    while i < n:
        h = (rotl((h + data[i] * P5) & M, 11) * P1) & M
        i += 1
    h ^= h >> 15
    h = (h * P2) & M
    h ^= h >> 13
    h = (h * P3) & M
    h ^= h >> 16
    return h


def le32(n):
    return [n & 255, (n >> 8) & 255, (n >> 16) & 255, (n >> 24) & 255]


def base_frames(ctx, b, d, rnd, prop):
    """valid frames: small ones (byte level) for several option vectors, and multi-block ones"""
    q = ctx.tier == "quick"
    cases = []
    vecs = fl.opt_vectors(rnd, 10 if q else 90, codes=(4, 5), legacy_share=0.15, conc=(1,))
    if sum(1 for o in vecs if o["legacy"]) < 2:          # always at least two legacy vectors
        for o in vecs[:2]:
            o["legacy"] = True
    # ... and one whose declared content size is the true one, without any checksum (nothing but the end mark says "complete")
    vecs.append({"code": 4, "bcs": False, "ccs": False, "level": 0, "conc": 1, "legacy": False, "handler": False, "size": "actual"})
    for o in vecs:
        o = dict(o)
        actual = o.get("size") == "actual"
        if o.get("size") == -1 or actual:
            o.pop("size")
        for kind in ("small1", "small3", "multi"):
            if kind == "small1":
                inp = fl.input_for(rnd, rnd.choice([1, 20, 60]), rnd.choice(["text", "random"]))
                calls = [{"op": "write", "n": inp["len"]}, {"op": "close"}]
            elif kind == "small3":
                inp = fl.input_for(rnd, 50, "text")
                calls = [{"op": "write", "n": 20}, {"op": "flush"}, {"op": "write", "n": 14}, {"op": "flush"}, {"op": "write", "n": 16}, {"op": "close"}]
            else:
                B = fl.block_of(o)
                if o["legacy"] and q and len([c for c in cases if c["opts"]["legacy"] and c["kind"] == "multi"]) >= 1:
                    continue
                n = 3 * B + 100 if not o["legacy"] else B + 1000
                inp = fl.input_for(rnd, n, rnd.choice(["text", "blockmix"]) if not o["legacy"] else "text")
                inp["p1"] = B
                calls = [{"op": "write", "n": n}, {"op": "close"}]
            cid = len(cases) + 1
            cases.append({"id": cid, "input": inp, "opts": dict(o, size=inp["len"]) if actual else o, "calls": calls, "kind": kind,
                          "save": os.path.join(d, "base-%d.lz4" % cid)})
    # frames without any content (header, end mark, trailer): nothing goes through the content hash, and every byte of the
    # trailer still has to be there (Close alone; Write of nothing then Close)
    for ccs, bcs, size0, calls in ((True, False, False, [{"op": "close"}]),
                                   (True, True, True, [{"op": "write", "n": 0}, {"op": "close"}]),
                                   (False, False, False, [{"op": "flush"}, {"op": "close"}])):
        o = {"code": 4, "bcs": bcs, "ccs": ccs, "level": 0, "conc": 1, "legacy": False, "handler": False}
        inp = fl.input_for(rnd, 0, "text")
        cid = len(cases) + 1
        cases.append({"id": cid, "input": inp, "opts": o, "calls": calls, "kind": "empty", "save": os.path.join(d, "base-%d.lz4" % cid)})
    recs, faults = fl.shard_run(b, "frame-write", cases, d, "base")
    if faults:
        raise vlib.MachineryFault("frame-write failed: %s" % faults[0]["stderr"][-800:])
    out = []
    for c in cases:
        w = recs[c["id"]]
        f = w["frames"][0]
        if f["status"] != "ok" or not f["same"]:
            continue        # not a valid base (C09 reports such frames)
        out.append({"case": c, "w": w, "layout": layout(w)})
    if len(out) < len(cases) * 0.8:
        raise vlib.MachineryFault("only %d of %d base frames are valid" % (len(out), len(cases)))
    return out


def layout(w):
    """field boundaries of a valid emitted frame: list of (kind, start, end)"""
    o = w["opts"]
    f = w["frames"][0]
    fields, pos = [("magic", 0, 4)], 4
    if not o["legacy"]:
        fields.append(("descriptor", 4, 6))
        pos = 6
        if o["size"]:
            fields.append(("contentsize", 6, 14))
            pos = 14
        fields.append(("hc", pos, pos + 1))
        pos += 1
    for k, blk in enumerate(f["blocks"]):
        fields.append(("blocksize", pos, pos + 4))
        fields.append(("payload", pos + 4, pos + 4 + blk["size"]))
        pos += 4 + blk["size"]
        if o["bcs"] and not o["legacy"]:
            fields.append(("blockcs", pos, pos + 4))
            pos += 4
    if not o["legacy"]:
        fields.append(("endmark", pos, pos + 4))
        pos += 4
        if o["ccs"]:
            fields.append(("contentcs", pos, pos + 4))
            pos += 4
    assert pos == w["sinkLen"], (pos, w["sinkLen"], o)
    return fields


def block_spans(lay):
    """(start, end) of each whole block (size + payload [+ checksum])"""
    spans, cur = [], None
    for kind, a, z in lay:
        if kind == "blocksize":
            if cur:
                spans.append(tuple(cur))
            cur = [a, z]
        elif kind in ("payload", "blockcs") and cur:
            cur[1] = z
        elif kind in ("endmark",) and cur:
            spans.append(tuple(cur))
            cur = None
    if cur:
        spans.append(tuple(cur))
    return spans


def reader_cfg(rnd, B, light=False):
    conc = rnd.choice([1, 1, 2, 4])
    seek = rnd.random() < 0.3            # the source is also an io.Seeker (a bytes.Reader, a file)
    if rnd.random() < 0.3:
        return {"conc": conc, "mode": "writeto", "seek": seek}
    return {"conc": conc, "mode": "read", "bufs": [rnd.choice([4096, B, B + 1, 3 * B] + ([] if light else [977]))], "seek": seek}


# ------------------------------------------------------------------------------------------ case builders

def c06_cases(ctx, bases, rnd):
    q = ctx.tier == "quick"
    cases = []
    for bi, bf in enumerate(bases):
        c, w, lay = bf["case"], bf["w"], bf["layout"]
        n = w["sinkLen"]
        legacy = c["opts"]["legacy"]
        bounds = {a for _, a, _ in lay} | {n}
        blockends = {z for k, a, z in lay if k == "payload"} | {4}
        if n <= 360:
            cuts = range(1, n)
        else:
            cuts = set()
            for x in bounds:
                for dlt in range(-3, 4):
                    if 1 <= x + dlt < n:
                        cuts.add(x + dlt)
            for _ in range(24 if q else 200):
                cuts.add(rnd.randrange(1, n))
            # inside the data of blocks beyond 64 KiB: at every multiple of 64 KiB from the start of the data (and next to it)
            for k_, a, z in lay:
                if k_ == "payload" and z - a > 65536:
                    for m in range(1, (z - a) // 65536 + 1):
                        for dlt in (-1, 0, 1):
                            if a < a + m * 65536 + dlt < min(z, n):
                                cuts.add(a + m * 65536 + dlt)
            cuts = sorted(cuts)
        B = fl.block_of(c["opts"])
        for cut in cuts:
            for k in range(1 if (n <= 360 and q) else 2):
                cfg = reader_cfg(rnd, B) if n > 360 else {"conc": [1, 2, 4][(cut + k) % 3], "mode": ["read", "writeto"][(cut // 3 + k) % 2], "bufs": [[1, 7, 4096, 70000][cut % 4]], "seek": (cut // 2 + k) % 2 == 0}
                cases.append({"id": len(cases) + 1, "chunks": [{"file": c["save"]}], "ops": [[1, cut]], "cfg": cfg, "content": c["input"],
                              "tag": {"base": bi, "cut": cut, "legacyboundary": bool(legacy and cut in blockends),
                                      "field": next((k_ for k_, a, z in lay if a <= cut < z), "end")}})
    # a stream cut inside a leading skippable frame (its announced bytes are missing), sources with and without Seek
    skipm = [0x51, 0x2A, 0x4D, 0x18]
    for bi, bf in enumerate(bases[:3]):
        for announced, present in ((10, 3), (1, 0), (100000, 5000), (4, 3)):
            for seek in (False, True):
                cases.append({"id": len(cases) + 1, "chunks": [{"bytes": skipm + le32(announced) + [7] * present}], "ops": [],
                              "cfg": {"conc": [1, 4][(bi + seek) % 2], "mode": ["read", "writeto"][(bi + announced) % 2], "bufs": [4096], "seek": seek},
                              "content": bf["case"]["input"], "tag": {"base": bi, "cut": 8 + present, "legacyboundary": False, "field": "skippable"}})
    return cases


def c05_cases(ctx, bases, rnd):
    q = ctx.tier == "quick"
    cases = []

    def add(bf, ops, what, chunks=None):
        c = bf["case"]
        B = fl.block_of(c["opts"])
        cfg = reader_cfg(rnd, B, light=True)
        cases.append({"id": len(cases) + 1, "chunks": chunks or [{"file": c["save"]}], "ops": ops, "cfg": cfg,
                      "tag": {"base": bases.index(bf), "mut": what}})
    for bf in bases:
        w, lay = bf["w"], bf["layout"]
        n = w["sinkLen"]
        if n <= 360:
            for pos in range(n):                        # every single-bit flip of a small frame
                for bit in (range(8) if not q else (pos % 8, (pos + 3) % 8)):
                    add(bf, [[2, pos, bit]], "flip")
            for _ in range(20 if q else 100):           # two flips in structural fields, substitutions
                st = [(a, z) for k, a, z in lay if k != "payload"]
                a1, z1 = rnd.choice(st)
                a2, z2 = rnd.choice(st)
                add(bf, [[2, rnd.randrange(a1, z1), rnd.randrange(8)], [2, rnd.randrange(a2, z2), rnd.randrange(8)]], "flip2")
                add(bf, [[3, rnd.randrange(n), rnd.choice([0, 0x0F, 0xF0, 0xFF, 0x10, 0x80, 1])]], "subst")
        else:
            for kind, a, z in lay:                      # flips at every structural field, sampled payload positions
                if kind == "payload":
                    for _ in range(2 if q else 8):
                        add(bf, [[2, rnd.randrange(a, z), rnd.randrange(8)]], "flip-payload")
                else:
                    for pos in range(a, z):
                        add(bf, [[2, pos, rnd.randrange(8)]], "flip-" + kind)
        # descriptor bytes replaced by values the specification does not allow (reserved block-size codes, other versions,
        # reserved bits) with the header checksum RECOMPUTED: only the field validation can refuse these
        if not bf["case"]["opts"]["legacy"]:
            f0 = w["frames"][0]
            flg, bd = f0["flg"], f0["bd"]
            hcpos = next(a for k, a, z in lay if k == "hc")
            csz = []
            for limb in f0.get("csize") or []:
                csz += [limb & 255, limb >> 8]
            for nflg, nbd in [(flg, (bd & 0x8F) | (code << 4)) for code in (0, 1, 2, 3)] + [(flg, bd | 0x80), (flg, bd | 0x01), (flg & 0x3F, bd), (flg | 0x80, bd),
                                                                                       ((flg & 0x3F) | 0x80, bd), (flg | 0x02, bd)]:
                if bf is not bases[0] and q and rnd.random() < 0.5:
                    continue
                desc = [nflg, nbd] + (csz if len(csz) == 8 else [])
                add(bf, [[3, 4, nflg], [3, 5, nbd], [3, hcpos, (xxh32(desc) >> 8) & 255]], "descriptor-with-valid-hc")
            # the checksum byte replaced by 0x00 / 0xFF (no "not set" value exists), alone and with an edited descriptor
            for nflg, nbd in ((flg, bd), (flg & ~0x04, bd), (flg ^ 0x10, bd), (flg, bd ^ 0x10)):
                for hc0 in (0x00, 0xFF):
                    desc = [nflg & 255, nbd] + (csz if len(csz) == 8 else [])
                    if (xxh32(desc) >> 8) & 255 != hc0:
                        add(bf, [[3, 4, nflg & 255], [3, 5, nbd], [3, hcpos, hc0]], "descriptor-hc-%02x" % hc0)
        spans = block_spans(lay)
        if len(spans) >= 2:
            for _ in range(3 if q else 10):
                i = rnd.randrange(len(spans) - 1)
                (a, z), (a2, z2) = spans[i], spans[i + 1]
                add(bf, [[4, a, z]], "delete-block")
                add(bf, [[5, a, z]], "duplicate-block")
                add(bf, [[6, a, z, z2]], "swap-blocks")
        # drop the end mark / the trailer
        for kind, a, z in lay:
            if kind == "endmark":
                add(bf, [[4, a, z]], "delete-endmark")
    # a block that expands beyond the declared block size (no checksums to notice): every buffer class must reject it
    def lenbytes(r):
        out = []
        while r >= 255:
            out.append(255)
            r -= 255
        return out + [r]
    for code, maxb in ((4, 65536), (5, 262144)):
        for extra in (1, 1000):
            m = maxb + extra - 1 - 5                   # 1 literal + match + 5 final literals = maxb + extra bytes
            blk = [0x1F, 65, 1, 0] + lenbytes(m - 4 - 15) + [0x50, 66, 67, 68, 69, 70]
            hdr = FRAME_MAGIC + [0x60, 16 * code]
            hc = {4: 0x82, 5: 0xFB}[code]
            frame = hdr + [hc] + le32(len(blk)) + blk + [0, 0, 0, 0]
            for cfg in ({"conc": 1, "mode": "read", "bufs": [4 * maxb]}, {"conc": 1, "mode": "read", "bufs": [4096]}, {"conc": 1, "mode": "writeto"},
                        {"conc": 4, "mode": "read", "bufs": [4 * maxb]}, {"conc": 4, "mode": "writeto"}):
                cases.append({"id": len(cases) + 1, "chunks": [{"bytes": frame}], "ops": [], "cfg": cfg, "tag": {"base": -1, "mut": "oversize-block"}})
    # legacy frames with a size word of 0 (an LZ4 block is never empty: the reference decoder reports corrupted input):
    # at the end, and between two blocks
    txt = [ord(ch) for ch in "hello legacy zero word!"]
    lblk = [0xF0, len(txt) - 15] + txt
    for body in (le32(len(lblk)) + lblk + [0, 0, 0, 0], le32(len(lblk)) + lblk + [0, 0, 0, 0] + le32(len(lblk)) + lblk, [0, 0, 0, 0] + le32(len(lblk)) + lblk):
        for cfg in ({"conc": 1, "mode": "read", "bufs": [4096]}, {"conc": 1, "mode": "writeto"}, {"conc": 4, "mode": "read", "bufs": [4096]}, {"conc": 4, "mode": "writeto"}):
            cases.append({"id": len(cases) + 1, "chunks": [{"bytes": LEGACY_MAGIC + body}], "ops": [], "cfg": cfg, "tag": {"base": -1, "mut": "legacy-zero-word"}})
    # a skippable frame in front of a valid frame, its length field damaged so that it points past the end of the input;
    # sources with and without Seek
    skipm = [0x5A, 0x2A, 0x4D, 0x18]
    for bi, bf in enumerate(bases[:4]):
        for ln in (3 | 0x40000000, 0x7FFFFFFF, 3 | 0x80000000, 0xFFFFFFFF, 3 + bf["w"]["sinkLen"] + 1, 3 + bf["w"]["sinkLen"] + 100000):
            for seek in (False, True):
                cases.append({"id": len(cases) + 1, "chunks": [{"bytes": skipm + le32(ln) + [9, 9, 9]}, {"file": bf["case"]["save"]}], "ops": [],
                              "cfg": {"conc": [1, 4][(bi + seek) % 2], "mode": ["read", "writeto"][bi % 2], "bufs": [4096], "seek": seek},
                              "tag": {"base": bi, "mut": "skippable-length-past-end"}})
    # a legacy frame whose second block has a match reaching into the first one (legacy blocks are independent)
    b1 = [0xF0, 15] + [ord("a") + k % 26 for k in range(30)]
    b2 = [0x14, ord("x"), 10, 0, 0x50] + [ord(ch) for ch in "tail!"]
    for cfg in ({"conc": 1, "mode": "read", "bufs": [4096]}, {"conc": 1, "mode": "writeto"}, {"conc": 4, "mode": "read", "bufs": [4096]}, {"conc": 4, "mode": "writeto"}):
        cases.append({"id": len(cases) + 1, "chunks": [{"bytes": LEGACY_MAGIC + le32(len(b1)) + b1 + le32(len(b2)) + b2}], "ops": [], "cfg": cfg,
                      "tag": {"base": -1, "mut": "legacy-linked-match"}})
        # the same two blocks in a frame of the current format that declares its blocks INDEPENDENT
        cases.append({"id": len(cases) + 1, "chunks": [{"bytes": FRAME_MAGIC + [0x60, 0x40, 0x82] + le32(len(b1)) + b1 + le32(len(b2)) + b2 + [0, 0, 0, 0]}], "ops": [], "cfg": cfg,
                      "tag": {"base": -1, "mut": "independent-blocks-linked-match"}})
    # splices between two frames of different options
    for _ in range(30 if q else 300):
        x, y = rnd.sample(bases, 2)
        cut1 = rnd.choice([a for _, a, _ in x["layout"]] + [x["w"]["sinkLen"]])
        cut2 = rnd.choice([a for _, a, _ in y["layout"]])
        add(x, [[1, cut1]], "splice", chunks=None)
        cases[-1]["chunks"] = [{"file": x["case"]["save"]}]
        cases[-1]["splice"] = {"file": y["case"]["save"], "from": cut2}
    return cases


def c07_cases(ctx, bases, rnd):
    q = ctx.tier == "quick"
    cases = []

    def add(chunks, what, ops=None, cfg=None, maxout=None):
        cfg = cfg or {"conc": rnd.choice([1, 4]), "mode": rnd.choice(["read", "writeto"]), "bufs": [rnd.choice([4096, 70000])]}
        c = {"id": len(cases) + 1, "chunks": chunks, "cfg": cfg, "tag": {"what": what}}
        if ops:
            c["ops"] = ops
        if maxout:
            c["maxout"] = maxout
        cases.append(c)
    hdr = FRAME_MAGIC + [0x60, 0x40, 0x82]                   # version 1, independent blocks, 64 KiB, no checksums
    hdr_cc = FRAME_MAGIC + [0x64, 0x40, 0xA7]
    firsts = [FRAME_MAGIC, LEGACY_MAGIC] + [[0x50 + i, 0x2A, 0x4D, 0x18] for i in range(16)] + \
             [[0x4F, 0x2A, 0x4D, 0x18], [0x60, 0x2A, 0x4D, 0x18], [0x00, 0x2A, 0x4D, 0x18], [0xFF, 0x2A, 0x4D, 0x18],
              [0x40, 0x2A, 0x4D, 0x18], [0x5F, 0x2B, 0x4D, 0x18], [0, 0, 0, 0], [255, 255, 255, 255], [3, 34, 77, 24], [5, 34, 77, 24]]
    rest = hdr[4:] + [0, 0, 0, 0]
    for fw in firsts:
        for conc in (1, 4):
            add([{"bytes": fw + rest}], "firstword", cfg={"conc": conc, "mode": "read", "bufs": [4096]})
            # skippable frame of announced length 3, then a valid empty frame
            add([{"bytes": fw + le32(3) + [9, 9, 9] + hdr + [0, 0, 0, 0]}], "firstword+skip", cfg={"conc": conc, "mode": "writeto"})
    skipm = [0x53, 0x2A, 0x4D, 0x18]
    tail = hdr + [0, 0, 0, 0]
    for ln in (0, 1, len(tail) - 1, len(tail), len(tail) + 1, (1 << 31) - 1, 1 << 31, (1 << 32) - 1):
        add([{"bytes": skipm + le32(ln) + tail}], "skip-length")
        add([{"bytes": skipm + le32(ln) + tail}], "skip-length", cfg={"conc": rnd.choice([1, 4]), "mode": rnd.choice(["read", "writeto"]), "bufs": [4096], "seek": True})
    # the announced number of bytes is skipped, all 32 bits of it: with the top bit set and 3 bytes + a frame behind it, the
    # frame is not reached
    for ln in (0x80000003, 0xC0000003, 0x80000000 + 3 + len(tail)):
        for seek in (False, True):
            add([{"bytes": skipm + le32(ln) + [9, 9, 9] + tail}], "skip-length-topbit", cfg={"conc": rnd.choice([1, 4]), "mode": rnd.choice(["read", "writeto"]), "bufs": [4096], "seek": seek})
    for size in (1, 65536, 65537, (1 << 31) - 1, 0x80000000 | 1, 0x80000000 | 65537, 0xFFFFFFFF, 0x80000000):
        for h in (hdr, hdr_cc):
            add([{"bytes": h + le32(size) + [1, 2, 3]}], "block-size")
            add([{"bytes": h + le32(size)}, {"bytes": [0], "repeat": 70000}], "block-size+data")
    for cs in (0, 1 << 63, (1 << 64) - 1):
        desc = [0x68, 0x40] + [(cs >> (8 * k)) & 255 for k in range(8)]
        add([{"bytes": FRAME_MAGIC + desc + [0]}], "content-size-bad-hc")
    # reserved block-size codes, other versions and reserved bits behind a VALID header checksum
    for flg, bd in [(0x60, c << 4) for c in (0, 1, 2, 3)] + [(0x64, c << 4) for c in (1, 2, 3)] + [(0x60, 0xC0), (0x20, 0x40), (0xA0, 0x40), (0x62, 0x40), (0x61, 0x40)]:
        desc = [flg, bd]
        for conc in (1, 4):
            for mode in ("read", "writeto"):
                add([{"bytes": FRAME_MAGIC + desc + [(xxh32(desc) >> 8) & 255] + le32(0x80000000 | 5) + [104, 101, 108, 108, 111] + [0, 0, 0, 0] * 2}],
                    "descriptor-valid-hc", cfg={"conc": conc, "mode": mode, "bufs": [4096]})
    # a hostile content size behind a VALID header checksum, a few bytes of real data: nothing may be sized from the field
    for cs in (0, 5, 6, 1 << 26, 1 << 31, (1 << 32) + 5, 1 << 40, (1 << 63) - 1, 1 << 63, (1 << 64) - 1):
        for flg in (0x68, 0x6C):
            desc = [flg, 0x40] + [(cs >> (8 * k)) & 255 for k in range(8)]
            desc.append((xxh32(desc) >> 8) & 255)
            data = [104, 101, 108, 108, 111]
            body = le32(0x80000000 | 5) + data + [0, 0, 0, 0] + (le32(xxh32(data)) if flg & 4 else [])
            for conc in (1, 4):
                for mode in ("read", "writeto"):
                    add([{"bytes": FRAME_MAGIC + desc + body}], "content-size-valid-hc", cfg={"conc": conc, "mode": mode, "bufs": [4096]})
    reps = (1, 2, 1000, 100000) + (() if q else (2000000,))
    big = 3000000 if q else 20000000
    for n in tuple(reps) + (big,):
        add([{"bytes": LEGACY_MAGIC, "repeat": n}], "repeat-legacy-magic", cfg={"conc": 1, "mode": "read", "bufs": [4096]})
        add([{"bytes": LEGACY_MAGIC, "repeat": n}], "repeat-legacy-magic", cfg={"conc": 4, "mode": "writeto"})
        if n <= 2000000:
            add([{"bytes": skipm + le32(0), "repeat": n}, {"bytes": tail}], "repeat-skippable")
            add([{"bytes": hdr}, {"bytes": le32(0x80000000), "repeat": n}, {"bytes": [0, 0, 0, 0]}], "repeat-empty-raw-block")
            add([{"bytes": hdr}, {"bytes": le32(1) + [0], "repeat": n}, {"bytes": [0, 0, 0, 0]}], "repeat-empty-compressed-block")
            add([{"bytes": tail, "repeat": min(n, 1000)}], "repeat-frames")
    # a legacy frame whose blocks decode to nothing, for ever
    add([{"bytes": LEGACY_MAGIC}, {"bytes": le32(1) + [0], "repeat": 100000}], "legacy-empty-blocks")
    # seeded random bytes, and random bytes behind a valid header
    for _ in range(300 if q else 6000):
        n = rnd.choice([0, 1, 3, 4, 5, 7, 8, 11, 15, 40, 200])
        add([{"bytes": [rnd.randrange(256) for _ in range(n)]}], "random")
        add([{"bytes": rnd.choice([hdr, hdr_cc, LEGACY_MAGIC]) + [rnd.choice([0, 1, 4, 0x80, 0xFF, rnd.randrange(256)]) for _ in range(n)]}], "random-after-header")
    # valid frames with dependent blocks beyond 64 KiB (independent encoder): the history window is trimmed while decoding
    for code, sizes in ((5, [200000, 200000, 70000, 262144]), (6, [1 << 20, 300000, 1 << 20]), (5, [65537, 65536, 65537, 5, 200000])):
        for kinds in (["lits", "m1", "mprev", "mfar", "raw"], ["raw", "raw", "mfar", "m1", "lits"]):
            plan = {"code": code, "bcs": False, "ccs": True, "seed": 7000 + code, "blocks": [{"size": z, "kind": kinds[i % len(kinds)]} for i, z in enumerate(sizes)]}
            for cfg in ({"conc": 1, "mode": "read", "bufs": [4096]}, {"conc": 4, "mode": "writeto"}, {"conc": 1, "mode": "read", "bufs": [300000]}):
                cases.append({"id": len(cases) + 1, "chunks": [], "plan": plan, "cfg": cfg, "tag": {"what": "linked-big-blocks"}})
    # a Reader that abandoned another stream in the middle of a block and was Reset (sequential earlier life)
    saved = [bf["case"]["save"] for bf in bases if bf["w"]["sinkLen"] > 1000]
    for i in range(min(len(saved), 12 if q else 60)):
        other = saved[(i * 7 + 3) % len(saved)]
        add([{"file": saved[i]}], "reused-after-partial-read",
            cfg={"conc": 1, "mode": ["read", "writeto"][i % 2], "bufs": [rnd.choice([4096, 100, 70000])], "preFile": other, "prePart": rnd.choice([1, 1000, 70000, 100000, 300000])})
    # mutants of valid frames (as in C05), judged here for safety only
    for bf in bases:
        n = bf["w"]["sinkLen"]
        for _ in range(20 if q else 150):
            ops = [[rnd.choice([2, 3]), rnd.randrange(n), rnd.randrange(8)] for _ in range(rnd.randrange(1, 4))]
            if rnd.random() < 0.3:
                ops.append([1, rnd.randrange(n)])
            add([{"file": bf["case"]["save"]}], "mutant", ops=ops)
    return cases


# ------------------------------------------------------------------------------------------ run

def run(ctx, prop):
    q = ctx.tier == "quick"
    b = vlib.build_harness()
    d = vlib.scratch(prop.lower())
    rnd = random.Random(ctx.seed * 1009 + int(prop[1:]))
    ctx.mc("MC_LZ4Frame", timeout=900)
    bases = base_frames(ctx, b, d, rnd, prop)
    if prop == "C06":
        cases = c06_cases(ctx, bases, rnd)
        ctx.rule = ("every cut position 1..len-1 of small frames (1- and 3-block, every option vector of the run) and every structural "
                    "boundary +-3 bytes plus sampled interior positions of multi-block frames, each read with concurrency 1/2/4 through "
                    "Read (buffer below / above the block size) or WriteTo; distinct = distinct (base frame, cut position, reader configuration)")
        ctx.exhaustive = True
    elif prop == "C05":
        cases = c05_cases(ctx, bases, rnd)
        ctx.rule = ("mutants of valid frames: every single-bit flip of small frames (all 8 bits in thorough), double flips in structural "
                    "fields, byte substitutions, flips at every structural byte and sampled payload bytes of multi-block frames, block "
                    "deletion / duplication / swap, end-mark deletion, splices of two frames with different options; distinct = distinct mutants")
    else:
        cases = c07_cases(ctx, bases, rnd)
        ctx.rule = ("hostile inputs: every first word around the magic ranges, skippable lengths up to 2^32-1, block sizes up to 2^31-1 with "
                    "and without the raw bit, content size 2^64-1, repetitions (up to 2*10^7 in thorough, 3*10^6 in quick) of legacy magics, "
                    "skippable frames, empty blocks, whole frames; seeded random bytes; mutants of valid frames; sequential and concurrent; "
                    "distinct = distinct inputs")
    # splices need a second file: resolve them into chunks
    for c in cases:
        sp = c.pop("splice", None)
        if sp:
            data = open(sp["file"], "rb").read()[sp["from"]:]
            first = open(c["chunks"][0]["file"], "rb").read()[:c["ops"][0][1]]
            p = os.path.join(d, "splice-%d.bin" % c["id"])
            open(p, "wb").write(first + data)
            c["chunks"], c["ops"] = [{"file": p}], []
    extra = ("--watchdog", "180s") + (("--mem",) if prop == "C07" else ())
    recs, faults = fl.shard_run(b, "frame-read", cases, d, "r", extra=extra, timeout=3000)
    crashed = []
    if faults:
        if prop != "C07":
            raise vlib.MachineryFault("frame-read failed: %s" % faults[0]["stderr"][-800:])
        crashed = faults      # C07: a process that died on an input is an observation, handled below
    ctx.evaluations += len(recs)
    ctx.distinct += len({json.dumps([c["chunks"], c.get("ops"), c["cfg"]], sort_keys=True) for c in cases})
    by_id = {c["id"]: c for c in cases}
    tp = os.path.join(d, "trace.ndjson")
    nrec = 0
    with open(tp, "w") as f:
        for c in cases:
            r = recs.get(c["id"])
            if r is None:
                continue
            f.write(json.dumps(event_of(prop, c, r), separators=(",", ":")) + "\n")
            nrec += 1
    if nrec == 0:
        raise vlib.MachineryFault("no records")
    acc, rej = vlib.validate_trace(ctx, "LZ4Frame_Trace", tp, cfg="LZ4Frame_Trace_" + prop, timeout=3000, max_reject=8)
    ex = next(r for r in recs.values() if r["small"])
    ctx.sample({"case": {k: v for k, v in by_id[ex["case"]].items() if k in ("ops", "cfg", "tag")}, "event": event_of(prop, by_id[ex["case"]], ex)})
    for rj in rej:
        rec = json.loads(rj["line"])
        confirm(ctx, prop, b, d, by_id[rec["case"]], rec, extra)
    # cases without a record: the process died (crash) while reading them
    missing = [c for c in cases if c["id"] not in recs]
    if missing:
        if prop != "C07":
            raise vlib.MachineryFault("%d cases produced no record" % len(missing))
        for c in missing[:40]:
            confirm_crash(ctx, b, d, c, extra)
    ctx.trusted += ["ref.ParseFrame for frames > 360 bytes (validated against LZ4Frame.tla by C09's ref-conformance step and on every "
                    "byte-level record here)", "sensors: watchdog, goroutine stack scan, runtime.MemStats (C07)"]


def event_of(prop, c, r):
    e = dict(r)
    e.update(c.get("tag", {}))
    e["conc"] = 4 if c["cfg"]["conc"] == 0 else c["cfg"]["conc"]
    if prop == "C07":
        code = (r.get("ref", {}).get("bd", 0) // 16) % 8
        legacy = r.get("ref", {}).get("legacy", False)
        e["maxblockMiB"] = 8 if legacy else {4: 1, 5: 1, 6: 1, 7: 4}.get(code, 4)
        e["deliveredMiB"] = r["deliveredLen"] // (1 << 20) + 1
        if "ref" not in e:
            e["ref"] = {"status": "unparsed"}
        first = (c.get("chunks") or [{}])[0].get("bytes") or []
        e["skipfirst"] = len(first) >= 4 and (first[0] & 0xF0) == 0x50 and first[1:4] == [0x2A, 0x4D, 0x18] and (c.get("chunks") or [{}])[0].get("repeat", 1) == 1
        e.setdefault("delivered", [])
    e.setdefault("legacyboundary", False)
    e.setdefault("prefixOfContent", True)
    e.setdefault("content", [])
    for k in ("errtext", "log", "cfg", "tag", "extraErr"):
        e.pop(k, None)
    return e


def key_of(prop, c, rec):
    tag = c.get("tag", {})
    if prop == "C06":
        return "C06:%s:cut-in-%s:%s:conc=%s:outcome=%s:prefix=%s" % ("legacy" if rec.get("ref", {}).get("legacy") else "frame", tag.get("field"),
                                                                  c["cfg"]["mode"], "1" if c["cfg"]["conc"] == 1 else ">1", rec["outcome"], rec["prefixOfContent"])
    if prop == "C05":
        st = rec.get("ref", {}).get("status")
        if rec.get("ref", {}).get("legacy") and st == "block_too_big" and rec["outcome"] == "clean":
            return "C05:legacy:size-word-with-high-bit-read-as-stored-block"
        if rec.get("ref", {}).get("legacy") and st == "bad_block" and rec["outcome"] == "clean" and rec.get("ref", {}).get("linkedok"):
            return "C05:legacy:match-into-previous-block-accepted"
        blks = rec.get("ref", {}).get("blocks") or [{}]
        if rec.get("ref", {}).get("legacy") and st == "bad_block" and rec["outcome"] == "clean" and blks[-1].get("size") == 0:
            return "C05:legacy:zero-size-word-read-as-empty-block-or-end"
        return "C05:%s:%s:ref=%s:%s:conc=%s:outcome=%s" % ("legacy" if rec.get("ref", {}).get("legacy") else "frame", tag.get("mut"), st,
                                                        c["cfg"]["mode"], "1" if c["cfg"]["conc"] == 1 else ">1", rec["outcome"])
    return "C07:%s:conc=%s:%s:outcome=%s:err=%s:leaked=%s:alloc=%s" % (tag.get("what"), "1" if c["cfg"]["conc"] == 1 else ">1", c["cfg"]["mode"], rec["outcome"], rec["err"],
                                                                     "0" if rec["leaked"] == 0 else ">0", "ok" if rec.get("mem", {}).get("allocMiB", 0) < 200 else "large")


def confirm(ctx, prop, b, d, c, rec, extra):
    key = key_of(prop, c, rec)
    if any(v[0] == key for v in ctx.violations):
        return
    tries = 10 if c["cfg"]["conc"] != 1 else 2
    rej2 = None
    for attempt in range(tries):
        rr, faults = fl.shard_run(b, "frame-read", [c], d, "again", nshards=1, extra=extra)
        if c["id"] not in rr:
            return confirm_crash(ctx, b, d, c, extra)
        r2 = rr[c["id"]]
        t2 = os.path.join(d, "again.ndjson")
        vlib.write_ndjson(t2, [event_of(prop, c, r2)])
        sub = vlib.Ctx(ctx.prop, ctx.tier, ctx.seed)
        a2, rej2 = vlib.validate_trace(sub, "LZ4Frame_Trace", t2, cfg="LZ4Frame_Trace_" + prop, shards=1)
        if rej2:
            break
    if not rej2:
        if rec.get("outcome") == "hang":
            # the watchdog expired once and the same input then ran to its end %d times: the machine was slow, the call
            # was not stuck (a call that never returns does not return on re-execution either)
            ctx.notes.append("watchdog expiry not reproduced in %d re-executions (load): %s" % (tries, key))
            return
        ctx.unreproducible("%s: %s" % (key, json.dumps(rec)[:300]))
        return
    obs = {k: v for k, v in r2.items() if k not in ("bytes", "delivered", "content", "log")}
    ctx.violation(key, "Reader observation rejected by LZ4Frame_Trace_%s: %s" % (prop, key),
                  {"kind": "readfuzz", "property": prop, "case": portable_case(c), "observed": obs})


def confirm_crash(ctx, b, d, c, extra):
    """the harness process died while reading this input (fatal error / os.Exit): re-run it alone"""
    rr, faults = fl.shard_run(b, "frame-read", [c], d, "crash", nshards=1, extra=extra)
    if c["id"] in rr:
        return      # it was not this case that killed the process
    key = "C07:%s:process-died" % c.get("tag", {}).get("what")
    ctx.violation(key, "reading this input kills the process: %s" % (faults[0]["stderr"][-300:] if faults else ""),
                  {"kind": "readfuzz", "property": "C07", "case": portable_case(c), "stderr": faults[0]["stderr"][-1500:] if faults else ""})


def portable_case(c):
    """make a case self-contained (inline the bytes of scratch files when small)"""
    c = json.loads(json.dumps(c))
    for ch in c["chunks"]:
        if ch.get("file") and os.path.exists(ch["file"]) and os.path.getsize(ch["file"]) <= 4096:
            ch["bytes"] = list(open(ch["file"], "rb").read())
            del ch["file"]
    return c


def replay(ctx, prop, path):
    rp = json.load(open(path))
    b = vlib.build_harness()
    d = vlib.scratch("rf")
    c = rp["case"]
    if any(ch.get("file") and not os.path.exists(ch["file"]) for ch in c["chunks"]):
        print("replay needs a base frame that was in scratch space; re-run the check (seed in the evidence file)")
        return 2
    extra = ("--watchdog", "180s") + (("--mem",) if prop == "C07" else ())
    rr, faults = fl.shard_run(b, "frame-read", [c], d, "r", nshards=1, extra=extra)
    if c["id"] not in rr:
        print("VIOLATION property=%s replay=%s" % (prop, path))
        return 1
    tp = os.path.join(d, "t.ndjson")
    vlib.write_ndjson(tp, [event_of(prop, c, rr[c["id"]])])
    acc, rej = vlib.validate_trace(ctx, "LZ4Frame_Trace", tp, cfg="LZ4Frame_Trace_" + prop, shards=1)
    if rej:
        print("VIOLATION property=%s replay=%s" % (prop, path))
        return 1
    print("replay: deviation not observed")
    return 0


def selftest(ctx, prop):
    b = vlib.build_harness()
    d = vlib.scratch("rfs")
    frame = FRAME_MAGIC + [0x60, 0x40, 0x82] + le32(0x80000003) + [7, 8, 9] + [0, 0, 0, 0]
    c = {"id": 1, "chunks": [{"bytes": frame}], "cfg": {"conc": 1, "mode": "read", "bufs": [4096]}, "tag": {"what": "selftest"},
         "content": {"family": "bytes", "len": 3, "seed": 0, "bytes": [7, 8, 9]}}
    extra = ("--mem",) if prop == "C07" else ()
    rr, _ = fl.shard_run(b, "frame-read", [c], d, "st", nshards=1, extra=extra)
    good = event_of(prop, c, rr[1])
    bad = json.loads(json.dumps(good))
    bad["case"] = 2
    if prop == "C05":
        bad["bytes"][-1] = 1          # no end mark any more, still claimed clean
    elif prop == "C06":
        good["bytes"] = good["bytes"][:-2]
        good["outcome"], good["err"], good["delivered"] = "error", "ueof", [7, 8, 9]
        bad = json.loads(json.dumps(good))
        bad["case"], bad["outcome"] = 2, "clean"
    else:
        bad["leaked"] = 2
    tp = os.path.join(d, "t.ndjson")
    vlib.write_ndjson(tp, [good, bad])
    acc, rej = vlib.validate_trace(ctx, "LZ4Frame_Trace", tp, cfg="LZ4Frame_Trace_" + prop, shards=1)
    if acc != 1 or len(rej) != 1:
        raise vlib.MachineryFault("selftest %s: acc=%d rej=%d" % (prop, acc, len(rej)))
    print("selftest %s ok" % prop)
    return 0
