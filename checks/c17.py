"""C17 - Writer and Reader follow their lifecycle for every call sequence.

 spec:  Writer.tla, Reader.tla (one action per public call, including the refused ones)
 MC:    MC_Writer / MC_Reader: all call sequences up to the tier's length; invariants Conservation,
        ClosedFrameComplete, AtMostOneHeader, DeliveredIsPrefix
 gen:   every sequence TLC enumerates is executed exactly (sizes mapped to classes around the real block size)
        on a sequential and on a concurrent object; Reader sequences also with bytes trailing the frame
 val:   Writer_Trace / Reader_Trace accept the recorded calls: results, error classes, sink-call counts,
        sink segments parsed by the reference parser (one complete frame per Close, descriptor = options also
        after Reset, nothing after a second Close), decodable prefix after Flush, io.EOF for ever after the end
        with zero source bytes consumed, no hang / panic / runaway output
"""
import json
import os
import random

import vlib
from checks import framelib as fl


def gen_cfg(module_cfg, maxcalls):
    return open(os.path.join(vlib.SPEC, module_cfg + ".cfg")).read().replace("MaxCalls = 4", "MaxCalls = %d" % maxcalls)


def simulated(ctx, module, cfg, maxcalls, num):
    """random behaviours of the model of `maxcalls` calls (TLC -simulate, seeded), as histories"""
    r = ctx.mc(module, cfg_text=gen_cfg(cfg, maxcalls), want_cases=True, timeout=900, workers=1,
               extra=["-simulate", "num=%d" % num, "-depth", str(maxcalls + 1), "-seed", str(ctx.seed)])
    seen, out = set(), []
    for h in r.cases:
        k = json.dumps(h, sort_keys=True)
        if k not in seen:
            seen.add(k)
            out.append(h)
    return sorted(out, key=lambda h: json.dumps(h, sort_keys=True))


def run(ctx):
    q = ctx.tier == "quick"
    L = 4 if q else 5
    ctx.rule = ("every call sequence of length %d over Writer {Write(0,1,B/2+5,B-1,B,B+1,2B+1), Flush, Close, ReadFrom(same sizes), Reset, Apply} "
                "and Reader {Read(0), Read(1), Read(3/5 of content), Read(> content), WriteTo, Size, Apply, Reset}, as enumerated by TLC, "
                "on sequential and concurrent objects, Reader also with trailing bytes; plus seeded random behaviours of the same models of 8 (Writer) "
                "and 7 (Reader) calls (TLC -simulate) and, for the Reader, every 2-call (thorough: 3-call) sequence, Reset, every 2-call sequence; distinct = distinct (sequence, object kind)" % L)
    b = vlib.build_harness()
    d = vlib.scratch("c17")
    rnd = random.Random(ctx.seed * 17 + 5)
    ctx.exhaustive = True

    # ---- Writer
    mw = ctx.mc("MC_Writer", cfg="MC_Writer_gen", cfg_text=gen_cfg("MC_Writer_gen", L), want_cases=True, timeout=1800, heap="8g")
    hs = sorted(mw.cases, key=lambda h: json.dumps(h, sort_keys=True))
    if not q:
        hs = hs[::2] if len(hs) > 150000 else hs
    # longer sequences: random behaviours of the same specification (TLC -simulate), 8 calls
    hs += simulated(ctx, "MC_Writer", "MC_Writer_gen", 8, 300 if q else 4000)
    B = 65536
    wcases = []
    for hi, h in enumerate(hs):
        calls, total = fl.concretise(h["calls"], B)
        for conc in ((1, 4) if (q or hi % 3 == 0) else (1,)):
            o = {"code": 4, "bcs": hi % 2 == 0, "ccs": hi % 3 != 0, "level": 0, "conc": conc, "legacy": False, "handler": hi % 5 == 0}
            if hi % 4 == 1:
                o["size"] = 77
            inp = {"family": "text" if hi % 2 else "blockmix", "len": total, "seed": hi % 50, "p1": B}
            wcases.append({"id": len(wcases) + 1, "input": inp, "opts": o, "calls": calls, "hist": hi})
    # re-configuration after Reset (the enumerated sequences re-apply the same options): a first life with another block
    # size that cuts no block, Reset with or without Close, Apply(block size 64 KiB), then a life that cuts blocks
    for i, (b1, pre, closed) in enumerate([(b1, pre, cl) for b1 in (5, 6, 7) for pre in (0, 1, 100, 65535) for cl in (False, True)]):
        for conc in (1, 4):
            first = ([{"op": "write", "n": pre}] if pre else []) + ([{"op": "close"}] if closed else [])
            calls = first + [{"op": "reset"}, {"op": "apply", "n": 4}, {"op": "write", "n": B + 5}, {"op": "flush"}, {"op": "write", "n": 2 * B}, {"op": "close"}]
            o = {"code": b1, "bcs": i % 2 == 0, "ccs": True, "level": 0, "conc": conc, "legacy": False, "handler": False}
            wcases.append({"id": len(wcases) + 1, "input": {"family": "text", "len": pre + 3 * B + 5, "seed": i}, "opts": o, "calls": calls, "hist": -1,
                           "reconf": True})
    # legacy frames, sequential and concurrent (Close returns only when everything has reached the sink)
    for i, calls in enumerate([[{"op": "write", "n": 300000}, {"op": "close"}],
                               [{"op": "write", "n": 100}, {"op": "flush"}, {"op": "write", "n": 5000}, {"op": "close"}, {"op": "reset"}, {"op": "write", "n": 70000}, {"op": "close"}],
                               [{"op": "readfrom", "n": 0}, {"op": "close"}, {"op": "close"}]]):
        for conc in (1, 4, 2):
            total = sum(c_.get("n", 0) for c_ in calls) or 200000
            wcases.append({"id": len(wcases) + 1, "input": {"family": "text", "len": total, "seed": 500 + i}, "calls": calls, "hist": -1,
                           "opts": {"code": 7, "bcs": False, "ccs": False, "level": 0, "conc": conc, "legacy": True, "handler": False}})
    # a life that met a (transient) sink failure, abandoned by Reset or closed and Reset: the next life is that of a new Writer
    for i, (k, closed) in enumerate([(k, cl) for k in (1, 2, 3, 5, 7) for cl in (False, True)]):
        for conc in (1, 4):
            calls = [{"op": "write", "n": 3 * B + 5}] + ([{"op": "close"}] if closed else []) + [{"op": "reset"}, {"op": "write", "n": B + 7}, {"op": "flush"},
                                                                                              {"op": "write", "n": 100}, {"op": "close"}]
            o = {"code": 4, "bcs": i % 2 == 0, "ccs": True, "level": 0, "conc": conc, "legacy": False, "handler": False}
            wcases.append({"id": len(wcases) + 1, "input": {"family": "text", "len": 4 * B + 112, "seed": 70 + i}, "opts": o, "calls": calls, "hist": -1,
                           "failAt": k, "once": True})
    wrecs, faults = fl.shard_run(b, "frame-write", wcases, d, "w", extra=("--watchdog", "30s"))
    # a case without a record killed its process (a panic in a library goroutine cannot be recovered by the caller)
    missing = [c for c in wcases if c["id"] not in wrecs]
    for c in missing[:6]:
        rr, ff = fl.shard_run(b, "frame-write", [c], d, "death", nshards=1, extra=("--watchdog", "30s"))
        if c["id"] not in rr:
            ops = "-".join(x["op"] for x in c["calls"])
            ctx.violation("C17:writer:process-died:conc=%s:%s" % ("1" if c["opts"]["conc"] == 1 else ">1", ops),
                          "this call sequence kills the process: %s" % (ff[0]["stderr"][-300:] if ff else ""),
                          {"kind": "c17-writer", "case": c, "stderr": ff[0]["stderr"][-1500:] if ff else ""})
        else:
            wrecs[c["id"]] = rr[c["id"]]
    # many cases without a record: usually one defect (a call that never returns ends its process after the watchdog, and a
    # shard full of them runs out of time).  The records that exist are judged first - a hung call is among them.
    many_missing = len(missing) if len(missing) > 6 else 0
    wcases = [c for c in wcases if c["id"] in wrecs]
    ctx.evaluations += len(wrecs)
    ctx.distinct += len(wcases)
    by_w = {c["id"]: c for c in wcases}
    for c in wcases:
        if c.get("reconf"):
            w = wrecs[c["id"]]
            flg, bd, cs = fl.descriptor_of(w["opts"])
            w["expdesc"] = [[flg, 16 * c["opts"]["code"], cs], [flg, 64, cs]]      # first life: original block size; second: 64 KiB
            w["block"] = B
            w["opts"]["code"] = 4
    for rj in fl.validate_writer_runs(ctx, [wrecs[c["id"]] for c in wcases], d, max_reject=6):
        rec = json.loads(rj["line"])
        c = by_w[rec["case"]]
        w = wrecs[c["id"]]
        ops = [x["op"] for x in c["calls"]]
        if w.get("hung"):
            key = "C17:writer:hang:conc=%s:%s" % ("1" if c["opts"]["conc"] == 1 else ">1", "-".join(ops))
        elif rec["ev"] == "wcall":
            idx = rj["index_in_case"]
            key = "C17:writer:conc=%s:%s:%s->%s" % ("1" if c["opts"]["conc"] == 1 else ">1", "-".join(ops[:idx]), rec["op"], rec["err"])
        else:
            key = "C17:writer:conc=%s:frame:%s:status=%s:same=%s:clean=%s" % ("1" if c["opts"]["conc"] == 1 else ">1", "-".join(ops),
                                                                           rec.get("status"), rec.get("same"), rec.get("clean"))
        confirm_writer(ctx, b, d, c, key)
    if many_missing and not ctx.violations:
        raise vlib.MachineryFault("%d writer cases produced no record" % many_missing)
    ctx.sample({"writer_sequence": wcases[len(wcases) // 2]["calls"], "events": fl.writer_events(wrecs[wcases[len(wcases) // 2]["id"]])[:5]})

    # ---- Reader
    mr = ctx.mc("MC_Reader", cfg_text=gen_cfg("MC_Reader", L), want_cases=True, timeout=1800, heap="8g")
    rh = sorted(mr.cases, key=lambda h: json.dumps(h, sort_keys=True))
    # a second life after every short first life: (every sequence of 2 / 3 calls) Reset (every sequence of 2 calls)
    def prefixes(n):
        seen, out = set(), []
        for h in rh:
            k = json.dumps(h["calls"][:n], sort_keys=True)
            if k not in seen and len(h["calls"]) >= n:
                seen.add(k)
                out.append(h["calls"][:n])
        return out
    first, second = prefixes(2 if q else 3), prefixes(2)
    composed = [{"calls": a + [{"op": "reset", "sz": 0}] + b_} for a in first for b_ in second]
    rh += simulated(ctx, "MC_Reader", "MC_Reader", 7, 400 if q else 5000)
    rh += composed
    rh += [{"calls": b_} for b_ in second]           # the same second lives on a new object (reference of reset_is_new)
    # one valid frame (3 blocks, content checksum, declared size) as the source
    fw = {"id": 1, "input": {"family": "text", "len": 150000, "seed": 9}, "save": os.path.join(d, "frame.lz4"),
          "opts": {"code": 4, "bcs": True, "ccs": True, "level": 0, "conc": 1, "legacy": False, "handler": False, "size": 150000},
          # blocks of irregular sizes (1000, 65536, 4464, 65536, 13464): a short block before a longer one, as Flush makes them
          "calls": [{"op": "write", "n": 1000}, {"op": "flush"}, {"op": "write", "n": 70000}, {"op": "flush"}, {"op": "write", "n": 79000}, {"op": "close"}]}
    fr, _ = fl.shard_run(b, "frame-write", [fw], d, "fw", nshards=1)
    total = 150000
    szmap = {0: 0, 1: 1, 3: total * 3 // 5, 7: total + 10}
    rcases = []
    for hi, h in enumerate(rh):
        calls = [{"op": c["op"], "sz": szmap.get(c["sz"], 0)} for c in h["calls"]]
        for conc, trailing in (((1, []), (4, [1, 2, 3, 4, 5, 6, 7, 8, 9])) if hi % 2 else ((1, [1, 2, 3, 4, 5, 6, 7, 8, 9]), (4, []))):
            rcases.append({"id": len(rcases) + 1, "chunks": [{"file": fw["save"]}], "trailing": trailing, "calls": calls, "conc": conc,
                           "content": fw["input"]})
    rrecs, faults = fl.shard_run(b, "reader-seq", rcases, d, "r", extra=("--watchdog", "30s"))
    if faults:
        raise vlib.MachineryFault("reader-seq failed: %s" % faults[0]["stderr"][-800:])
    ctx.evaluations += len(rrecs)
    ctx.distinct += len(rcases)
    by_r = {c["id"]: c for c in rcases}
    tp = os.path.join(d, "rtrace.ndjson")
    with open(tp, "w") as f:
        for c in rcases:
            for e in rseq_events(rrecs[c["id"]], total):
                f.write(json.dumps(e, separators=(",", ":")) + "\n")
    acc, rej = vlib.validate_trace(ctx, "Reader_Trace", tp, timeout=1800, max_reject=6)
    ctx.sample({"reader_sequence": rcases[77]["calls"], "events": rseq_events(rrecs[rcases[77]["id"]], total)})
    reset_is_new(ctx, b, d, rcases, rrecs)
    reuse_across_frames(ctx, b, d)
    writer_reuse_across_configs(ctx, b, d)
    for rj in rej:
        rec = json.loads(rj["line"])
        c = by_r[rec["case"]]
        ops = ["%s(%d)" % (x["op"], x["sz"]) if x["op"] == "read" else x["op"] for x in c["calls"]]
        r = rrecs[c["id"]]
        if r["hung"]:
            key = "C17:reader:hang:" + "-".join(ops)
        elif rec["ev"] == "rcall":
            idx = rj["index_in_case"] - 1
            key = "C17:reader:conc=%d:trailing=%s:%s:%s->n=%s,err=%s,cons=%s" % (c["conc"], bool(c["trailing"]), "-".join(ops[:idx]), ops[idx] if idx < len(ops) else "?",
                                                                             "0" if rec["n"] == 0 else ">0", rec["err"], "0" if rec["cons"] == 0 else ">0")
        else:
            key = "C17:reader:end:%s:same=%s:prefixok=%s" % ("-".join(ops), rec.get("same"), rec.get("prefixok"))
        if any(v[0] == key for v in ctx.violations):
            continue
        # concurrent objects: the deviation may depend on the schedule - re-execute up to 20 times
        rej2 = None
        for attempt in range(20 if c["conc"] != 1 else 1):
            rr, _ = fl.shard_run(b, "reader-seq", [c], d, "again-r", nshards=1, extra=("--watchdog", "30s"))
            t2 = os.path.join(d, "again-r.ndjson")
            vlib.write_ndjson(t2, rseq_events(rr[c["id"]], total))
            sub = vlib.Ctx(ctx.prop, ctx.tier, ctx.seed)
            a2, rej2 = vlib.validate_trace(sub, "Reader_Trace", t2, shards=1)
            if rej2:
                break
        if not rej2:
            ctx.unreproducible("reader-sequence rejection not reproducible: %s" % rj["line"][:300])
            continue
        ctx.violation(key, "Reader call sequence is not a behaviour of Reader.tla: %s" % key,
                      {"kind": "c17-reader", "case": {k: v for k, v in c.items() if k != "chunks"}, "frame": fw, "observed": rr[c["id"]],
                       "rejected_event": json.loads(rej2[0]["line"])})


def observable(call, conc=1):
    # (how far a concurrent Reader has read ahead in its source when a call returns depends on the schedule)
    return {k: call.get(k) for k in ("op", "sz", "n", "err", "size") + (("cons",) if conc == 1 else ())}


def reset_is_new(ctx, b, d, rcases, rrecs):
    """C17: "Reset makes the object indistinguishable from a new one with the same options" - taken literally: whatever
    calls follow the last Reset of a sequence, their results (count, error class, source bytes consumed, Size) are the
    results of the same calls on a new Reader (same concurrency, same source).  The reference run is the one TLC's
    enumeration contains anyway (every sequence is a sequence on a new object); no model of what the results should be."""
    fresh = {}
    for c in rcases:
        if not any(x["op"] == "reset" for x in c["calls"]):
            fresh[(json.dumps(c["calls"]), c["conc"], bool(c["trailing"]))] = c
    compared = 0
    for c in rcases:
        ops = [x["op"] for x in c["calls"]]
        if "reset" not in ops:
            continue
        k = len(ops) - 1 - ops[::-1].index("reset")
        tail = c["calls"][k + 1:]
        if not tail:
            continue
        ref = fresh.get((json.dumps(tail), c["conc"], bool(c["trailing"])))
        if ref is None:
            continue
        r, rr = rrecs[c["id"]], rrecs[ref["id"]]
        if r["hung"] or rr["hung"] or len(r["calls"]) != len(c["calls"]) or len(rr["calls"]) != len(tail):
            continue
        compared += 1
        got, want = [observable(x, c["conc"]) for x in r["calls"][k + 1:]], [observable(x, c["conc"]) for x in rr["calls"]]
        if got == want:
            continue
        i = next(j for j in range(len(tail)) if got[j] != want[j])
        names = ["%s(%d)" % (x["op"], x["sz"]) if x["op"] == "read" else x["op"] for x in c["calls"]]
        key = "C17:reader:reset-is-not-new:conc=%d:%s:%s->err=%s(new:%s)" % (c["conc"], "-".join(names[:k + 1]), "-".join(names[k + 1:k + 2 + i]), got[i]["err"], want[i]["err"])
        if any(v[0] == key for v in ctx.violations):
            continue
        # re-execute both (concurrent objects: up to 10 times)
        again = None
        for attempt in range(10 if c["conc"] != 1 else 2):
            r2, _ = fl.shard_run(b, "reader-seq", [c, ref], d, "rin", nshards=1, extra=("--watchdog", "30s"))
            if c["id"] in r2 and ref["id"] in r2 and not r2[c["id"]]["hung"] and not r2[ref["id"]]["hung"]:
                g2, w2 = [observable(x, c["conc"]) for x in r2[c["id"]]["calls"][k + 1:]], [observable(x, c["conc"]) for x in r2[ref["id"]]["calls"]]
                if g2 != w2:
                    again = (g2, w2)
                    break
        if again is None:
            ctx.unreproducible(key)
            continue
        ctx.violation(key, "after Reset the Reader does not behave like a new one: %s" % key,
                      {"kind": "c17-reset-new", "case": c, "fresh": ref, "after_reset": again[0], "new_object": again[1]})
    ctx.extra["reset_is_new_comparisons"] = compared


RESULT_KEYS = ("outcome", "err", "deliveredLen", "deliveredSha", "size", "consumed")


def reuse_across_frames(ctx, b, d):
    """"Reset makes the object indistinguishable from a new one", across frames of different kinds: a Reader that has read
    frame F to its end and is Reset onto frame G reads G exactly as a new Reader does (result, bytes, Size, source bytes)."""
    q = ctx.tier == "quick"
    B = 65536
    kinds = [("bcs+ccs", {"code": 4, "bcs": True, "ccs": True, "legacy": False}), ("plain", {"code": 4, "bcs": False, "ccs": False, "legacy": False}),
             ("legacy", {"code": 7, "bcs": False, "ccs": False, "legacy": True}), ("sized-256K", {"code": 5, "bcs": False, "ccs": True, "legacy": False, "size": 3 * B + 5}),
             ("bcs-1M", {"code": 6, "bcs": True, "ccs": False, "legacy": False}), ("plain-4M", {"code": 7, "bcs": False, "ccs": True, "legacy": False})]
    frames = []
    for i, (name, o) in enumerate(kinds):
        n = 3 * B + 5
        frames.append({"id": i + 1, "name": name, "input": {"family": ["text", "blockmix"][i % 2], "len": n, "seed": 300 + i, "p1": B},
                       "opts": dict(o, level=0, conc=1, handler=False), "calls": [{"op": "write", "n": n}, {"op": "close"}],
                       "save": os.path.join(d, "reuse-%d.lz4" % (i + 1))})
    fl.shard_run(b, "frame-write", frames, d, "reusew")
    # two hand-made frames with dependent blocks: a valid one (40 literal bytes), and an INVALID one whose first match
    # reaches 9 bytes before the start of the stream - a new Reader rejects it; a reused one must too (D27: the history
    # window of the previous stream survived Reset and the match was resolved against it)
    from checks.readfuzz import xxh32, le32, FRAME_MAGIC
    hdr = FRAME_MAGIC + [0x40, 0x40, (xxh32([0x40, 0x40]) >> 8) & 255]
    lit = [0xF0, 25] + [97 + k % 8 for k in range(40)]
    badblk = [0x14, 120, 10, 0, 0x50] + [ord(ch) for ch in "tail!"]
    hdr64 = FRAME_MAGIC + [0x60, 0x40, 0x82]
    big = [((i * 73 + 5) ^ (i >> 4)) & 255 for i in range(100000)]
    for name, h_, body, valid in (("linked-valid", hdr, le32(len(lit)) + lit, True), ("linked-match-before-start", hdr, le32(len(badblk)) + badblk, False),
                                  # INVALID: a 64 KiB-block frame holding a stored block of 100 000 bytes (a buffer left over from a
                                  # frame with larger blocks must not make it acceptable)
                                  ("stored-block-beyond-the-block-size", hdr64, le32(0x80000000 | len(big)) + big, False)):
        path = os.path.join(d, "reuse-%s.lz4" % name)
        open(path, "wb").write(bytes(h_ + body + [0, 0, 0, 0]))
        frames.append({"id": len(frames) + 1, "name": name, "save": path, "valid": valid, "bytes": h_ + body + [0, 0, 0, 0]})
    # a frame whose content is exactly as long as the first block-size word of the legacy frame says (a byte counter left over
    # from the earlier stream would then look like the legacy "total size" trailer)
    leg = next(f for f in frames if f["name"] == "legacy")
    lb = open(leg["save"], "rb").read()
    S = int.from_bytes(lb[4:8], "little") & 0x7FFFFFFF
    trap = {"id": len(frames) + 1, "name": "content-as-long-as-the-legacy-size-word", "input": {"family": "text", "len": S, "seed": 321, "p1": B},
            "opts": {"code": 4, "bcs": False, "ccs": True, "legacy": False, "level": 0, "conc": 1, "handler": False},
            "calls": [{"op": "write", "n": S}, {"op": "close"}], "save": os.path.join(d, "reuse-trap.lz4")}
    fl.shard_run(b, "frame-write", [trap], d, "reusew2", nshards=1)
    frames.append(trap)
    cases = []
    for g in frames:
        for conc in (1, 4):
            for mode in ("read", "writeto"):
                cfg = {"conc": conc, "mode": mode, "bufs": [4096 if conc == 1 else 3 * B], "extra": 1}
                ref = {"id": len(cases) + 1, "chunks": [{"file": g["save"]}], "cfg": cfg, "g": g["name"], "f": None}
                cases.append(ref)
                for f in frames:
                    if f is not g:
                        cases.append({"id": len(cases) + 1, "chunks": [{"file": g["save"]}], "cfg": dict(cfg, preFile=f["save"]), "g": g["name"], "f": f["name"],
                                      "ref": ref["id"]})
                        # ... the earlier life read to its end through Read calls
                        cases.append({"id": len(cases) + 1, "chunks": [{"file": g["save"]}], "cfg": dict(cfg, preFile=f["save"], preRead=True), "g": g["name"],
                                      "f": f["name"] + "(Read)", "ref": ref["id"]})
                        # ... the earlier life with the other concurrency (Apply after Reset)
                        cases.append({"id": len(cases) + 1, "chunks": [{"file": g["save"]}], "cfg": dict(cfg, preFile=f["save"], preConc=4 if conc == 1 else 1),
                                      "g": g["name"], "f": f["name"] + "(conc %d)" % (4 if conc == 1 else 1), "ref": ref["id"]})
                        # ... and abandoned in the middle of a block (sequential earlier life: an abandoned concurrent
                        # pipeline keeps its goroutines, which is outside what C08 promises)
                        if conc == 1:
                            cases.append({"id": len(cases) + 1, "chunks": [{"file": g["save"]}], "cfg": dict(cfg, preFile=f["save"], prePart=100000),
                                          "g": g["name"], "f": f["name"] + "(100000 bytes)", "ref": ref["id"]})
    recs, faults = fl.shard_run(b, "frame-read", cases, d, "reuser", extra=("--watchdog", "60s"))
    if faults:
        raise vlib.MachineryFault("frame-read failed: %s" % faults[0]["stderr"][-600:])
    ctx.evaluations += len(cases)
    ctx.distinct += len(cases)
    by_id = {c["id"]: c for c in cases}
    valid_of = {f["name"]: f.get("valid", True) for f in frames}

    def res(r, conc):
        return {k: r.get(k) for k in RESULT_KEYS if not (k == "consumed" and conc != 1)}
    for c in cases:
        if c["f"] is None:
            continue
        ref = by_id[c["ref"]]
        if c["id"] not in recs or ref["id"] not in recs:
            continue
        conc = c["cfg"]["conc"]
        if recs[ref["id"]]["outcome"] != "clean" and valid_of[c["g"]]:
            raise vlib.MachineryFault("a new Reader does not read the valid frame %s" % c["g"])
        if res(recs[c["id"]], conc) == res(recs[ref["id"]], conc):
            continue
        key = "C17:reader:reset-is-not-new:after=%s:frame=%s:%s:conc=%s:outcome=%s/%s" % (c["f"], c["g"], c["cfg"]["mode"], "1" if conc == 1 else ">1",
                                                                                      recs[c["id"]]["outcome"], recs[c["id"]]["err"])
        if any(v[0] == key for v in ctx.violations):
            continue
        again = None
        for attempt in range(10 if conc != 1 else 2):
            r2, _ = fl.shard_run(b, "frame-read", [c, ref], d, "reuseagain", nshards=1, extra=("--watchdog", "60s"))
            if c["id"] in r2 and ref["id"] in r2 and res(r2[c["id"]], conc) != res(r2[ref["id"]], conc):
                again = (res(r2[c["id"]], conc), res(r2[ref["id"]], conc))
                break
        if again is None:
            ctx.unreproducible(key)
            continue
        ctx.violation(key, "a Reader Reset onto another frame does not read it as a new Reader does: %s" % key,
                      {"kind": "c17-reuse-frames", "case": c, "fresh": ref, "after_reset": again[0], "new_object": again[1],
                       "frames": [{k: v for k, v in f.items()} for f in frames]})
    ctx.extra["reuse_across_frames"] = len(cases)


def writer_reuse_across_configs(ctx, b, d):
    """The Writer's side of "Reset makes the object indistinguishable from a new one with the same options": a Writer that
    wrote a frame in one configuration (legacy or not, some block size), was Reset and re-configured writes byte for byte
    the frame a new Writer in the second configuration writes (D28: after a legacy frame the descriptor kept the legacy
    block size code).  Differential, no model of the expected bytes."""
    words = (b"lorem ipsum dolor sit amet consectetur adipiscing elit sed do eiusmod tempor " * 80)
    first, second = list(words[:1500]), list(words[700:5000])
    cfgs = [(False, 4), (False, 5), (False, 7), (True, 7)]              # (legacy, block size code)
    cases, refs = [], {}
    base = {"bcs": False, "ccs": True, "level": 0, "handler": False}
    for conc in (1, 4):
        for lb, cb in cfgs:
            rid = len(cases) + 1
            cases.append({"id": rid, "kind": "writer", "lives": True, "input": {"family": "bytes", "len": len(second), "seed": 0, "bytes": second},
                          "opts": dict(base, code=cb, legacy=lb, conc=conc), "calls": [{"op": "write", "n": len(second)}, {"op": "close"}],
                          "seed": 1, "perturb": 0, "poison": False})
            refs[(conc, lb, cb)] = rid
            for la, ca in cfgs:
                if (la, ca) == (lb, cb):
                    continue
                for n1 in (0, len(first)):
                    re = [{"op": "apply", "n": 101 if lb else 100}] + ([{"op": "apply", "n": cb}] if not lb else [])
                    calls = ([{"op": "write", "n": n1}] if n1 else [{"op": "write", "n": 0}]) + [{"op": "close"}, {"op": "reset"}] + re + \
                        [{"op": "write", "n": len(second)}, {"op": "close"}]
                    data = (first if n1 else []) + second
                    cases.append({"id": len(cases) + 1, "kind": "writer", "lives": True, "input": {"family": "bytes", "len": len(data), "seed": 0, "bytes": data},
                                  "opts": dict(base, code=ca, legacy=la, conc=conc), "calls": calls, "seed": 1, "perturb": 0, "poison": False,
                                  "ref": rid, "from": "%s/%d" % ("legacy" if la else "frame", ca), "to": "%s/%d" % ("legacy" if lb else "frame", cb)})
    # ... and only the legacy switch turned off again: the block size configured before is in force (D28)
    for conc in (1, 4):
        for ca in (4, 5, 7):
            for n1 in (0, len(first)):
                calls = [{"op": "write", "n": n1}, {"op": "close"}, {"op": "reset"}, {"op": "apply", "n": 100}, {"op": "write", "n": len(second)}, {"op": "close"}]
                data = (first if n1 else []) + second
                cases.append({"id": len(cases) + 1, "kind": "writer", "lives": True, "input": {"family": "bytes", "len": len(data), "seed": 0, "bytes": data},
                              "opts": dict(base, code=ca, legacy=True, conc=conc), "calls": calls, "seed": 1, "perturb": 0, "poison": False,
                              "ref": refs[(conc, False, ca)], "from": "legacy/%d" % ca, "to": "frame/%d (legacy switched off only)" % ca})
    # ... a first life that is NOT closed (Reset in the middle of a block) before a larger block size is applied
    for conc in (1, 4):
        for ca, cb in ((4, 5), (4, 6), (5, 6)):
            calls = [{"op": "write", "n": len(first)}, {"op": "reset"}, {"op": "apply", "n": cb}, {"op": "write", "n": len(second)}, {"op": "close"}]
            big = (words * 30)[:400000]
            data = first + list(big)
            calls = [{"op": "write", "n": len(first)}, {"op": "reset"}, {"op": "apply", "n": cb}, {"op": "write", "n": len(big)}, {"op": "close"}]
            rid = len(cases) + 1
            cases.append({"id": rid, "kind": "writer", "lives": True, "input": {"family": "bytes", "len": len(big), "seed": 0, "bytes": list(big)},
                          "opts": dict(base, code=cb, legacy=False, conc=conc), "calls": [{"op": "write", "n": len(big)}, {"op": "close"}], "seed": 1, "perturb": 0, "poison": False})
            cases.append({"id": len(cases) + 1, "kind": "writer", "lives": True, "input": {"family": "bytes", "len": len(data), "seed": 0, "bytes": data},
                          "opts": dict(base, code=ca, legacy=False, conc=conc), "calls": calls, "seed": 1, "perturb": 0, "poison": False,
                          "ref": rid, "from": "frame/%d (not closed)" % ca, "to": "frame/%d" % cb})
    # ... two legacy lives in a row before the switch back (what is remembered must not be overwritten by the second)
    for conc in (1, 4):
        for ca in (4, 5):
            calls = [{"op": "write", "n": 100}, {"op": "close"}, {"op": "reset"}, {"op": "write", "n": len(first) - 100}, {"op": "close"}, {"op": "reset"},
                     {"op": "apply", "n": 100}, {"op": "write", "n": len(second)}, {"op": "close"}]
            cases.append({"id": len(cases) + 1, "kind": "writer", "lives": True, "input": {"family": "bytes", "len": len(first) + len(second), "seed": 0, "bytes": first + second},
                          "opts": dict(base, code=ca, legacy=True, conc=conc), "calls": calls, "seed": 1, "perturb": 0, "poison": False,
                          "ref": refs[(conc, False, ca)], "from": "legacy/%d, legacy/%d" % (ca, ca), "to": "frame/%d (legacy switched off only)" % ca})
    # ... and the other options withdrawn or set again: content size, block checksum, content checksum
    toggles = {"size": (200, 201), "bcs": (210, 211), "ccs": (220, 221)}
    for conc in (1, 4):
        for a_on in (False, True):
            for which in ("size", "bcs", "ccs", "all"):
                names = list(toggles) if which == "all" else [which]
                oa = dict(base, code=4, legacy=False, conc=conc, bcs=a_on, ccs=a_on)
                if a_on:
                    oa["size"] = 77
                ob = dict(oa)
                for nm in names:
                    if nm == "size":
                        if a_on:
                            ob.pop("size", None)
                        else:
                            ob["size"] = 77
                    else:
                        ob[nm] = not a_on
                rid = len(cases) + 1
                cases.append({"id": rid, "kind": "writer", "lives": True, "input": {"family": "bytes", "len": len(second), "seed": 0, "bytes": second},
                              "opts": ob, "calls": [{"op": "write", "n": len(second)}, {"op": "close"}], "seed": 1, "perturb": 0, "poison": False})
                re = [{"op": "apply", "n": toggles[nm][0 if a_on else 1]} for nm in names]
                for closed in (True, False):
                    calls = [{"op": "write", "n": len(first)}] + ([{"op": "close"}] if closed else []) + [{"op": "reset"}] + re + \
                        [{"op": "write", "n": len(second)}, {"op": "close"}]
                    cases.append({"id": len(cases) + 1, "kind": "writer", "lives": True, "input": {"family": "bytes", "len": len(first) + len(second), "seed": 0, "bytes": first + second},
                                  "opts": oa, "calls": calls, "seed": 1, "perturb": 0, "poison": False, "ref": rid,
                                  "from": "%s on" % which if a_on else "%s off" % which, "to": "%s toggled%s" % (which, "" if closed else " (Reset without Close)")})
    recs, faults = fl.shard_run(b, "pipe-run", cases, d, "wreuse", extra=("--watchdog", "30s"))
    if faults:
        raise vlib.MachineryFault("pipe-run failed: %s" % faults[0]["stderr"][-600:])
    ctx.evaluations += len(cases)
    ctx.distinct += len(cases)
    by_id = {c["id"]: c for c in cases}
    for c in cases:
        if "ref" not in c or c["id"] not in recs or c["ref"] not in recs:
            continue
        r, rr = recs[c["id"]], recs[c["ref"]]
        if rr.get("status") != "ok" and not by_id[c["ref"]]["opts"]["legacy"]:
            raise vlib.MachineryFault("a new Writer does not write a valid frame (%s)" % c["to"])
        if not r["hung"] and r.get("lastSegSha") == rr.get("sinkSha") and not any(e not in ("none", "") for e in r["errs"]):
            continue
        key = "C17:writer:reset-is-not-new:%s->%s:conc=%s" % (c["from"], c["to"], "1" if c["opts"]["conc"] == 1 else ">1")
        if any(v[0] == key for v in ctx.violations):
            continue
        r2, _ = fl.shard_run(b, "pipe-run", [c, by_id[c["ref"]]], d, "wreuseagain", nshards=1, extra=("--watchdog", "30s"))
        a, z = r2.get(c["id"]), r2.get(c["ref"])
        if a and z and not a["hung"] and a.get("lastSegSha") == z.get("sinkSha") and not any(e not in ("none", "") for e in a["errs"]):
            ctx.unreproducible(key)
            continue
        ctx.violation(key, "a Writer Reset and re-configured does not write what a new Writer with those options writes: %s" % key,
                      {"kind": "c17-writer-reuse", "case": c, "fresh": by_id[c["ref"]],
                       "observed": {k: v for k, v in (a or {}).items() if k != "events"}, "new_object": {k: v for k, v in (z or {}).items() if k != "events"}})
    ctx.extra["writer_reuse_across_configs"] = len(cases)


def rseq_events(r, total):
    ev = [{"ev": "rnew", "case": r["case"], "total": total, "conc": r["conc"], "linked": False, "declared": [total % 65536, total // 65536, 0, 0]}]
    for c in r["calls"]:
        ev.append(dict(c, ev="rcall", case=r["case"], st=(c.get("st") or "").replace("State", "")))
    ev.append({"ev": "rend", "case": r["case"], "same": r["same"], "prefixok": r["prefixok"], "clean": (not r["hung"]) and r["panicked"] == ""})
    return ev


def confirm_writer(ctx, b, d, case, key):
    if any(v[0] == key for v in ctx.violations):
        return
    rej = None
    for attempt in range(20 if case["opts"]["conc"] != 1 else 1):
        recs, faults = fl.shard_run(b, "frame-write", [case], d, "again", nshards=1, extra=("--watchdog", "30s"))
        w = recs[case["id"]]
        sub = vlib.Ctx(ctx.prop, ctx.tier, ctx.seed)
        rej = fl.validate_writer_runs(sub, [w], d)
        if rej:
            break
    if not rej:
        ctx.unreproducible("writer-sequence rejection not reproducible for %s" % json.dumps(case)[:300])
        return
    slim = json.loads(json.dumps(w))
    for fr in slim.get("frames", []):
        fr["blocks"] = fr["blocks"][:8]
    slim["sinkCalls"] = slim.get("sinkCalls", [])[:40]
    ctx.violation(key, "Writer call sequence is not a behaviour of Writer.tla: %s" % key,
                  {"kind": "c17-writer", "case": case, "observed": slim, "rejected_event": json.loads(rej[0]["line"])})


def replay(ctx, path):
    rp = json.load(open(path))
    b = vlib.build_harness()
    d = vlib.scratch("c17r")
    if rp["kind"] == "c17-writer-reuse":
        c, ref = rp["case"], rp["fresh"]
        r2, _ = fl.shard_run(b, "pipe-run", [c, ref], d, "wreuseagain", nshards=1, extra=("--watchdog", "30s"))
        a, z = r2.get(c["id"]), r2.get(ref["id"])
        if not (a and z) or a["hung"] or a.get("lastSegSha") != z.get("sinkSha") or any(e not in ("none", "") for e in a["errs"]):
            print("VIOLATION property=%s replay=%s" % (ctx.prop, path))
            return 1
        print("replay: deviation not observed")
        return 0
    if rp["kind"] == "c17-reuse-frames":
        fl.shard_run(b, "frame-write", [dict(f, save=os.path.join(d, os.path.basename(f["save"]))) for f in rp["frames"] if "bytes" not in f], d, "reusew")
        for f in rp["frames"]:
            if "bytes" in f:
                open(os.path.join(d, os.path.basename(f["save"])), "wb").write(bytes(f["bytes"]))
        fix = lambda c: json.loads(json.dumps(c).replace(os.path.dirname(rp["frames"][0]["save"]), d))
        c, ref = fix(rp["case"]), fix(rp["fresh"])
        conc = c["cfg"]["conc"]
        for attempt in range(10):
            r2, _ = fl.shard_run(b, "frame-read", [c, ref], d, "reuseagain", nshards=1, extra=("--watchdog", "60s"))
            a, z = [{k: r2[x["id"]].get(k) for k in RESULT_KEYS if not (k == "consumed" and conc != 1)} for x in (c, ref)]
            if a != z:
                print("VIOLATION property=%s replay=%s" % (ctx.prop, path))
                return 1
        print("replay: deviation not observed")
        return 0
    if rp["kind"] == "c17-reset-new":
        c, ref = rp["case"], rp["fresh"]
        ops = [x["op"] for x in c["calls"]]
        k = len(ops) - 1 - ops[::-1].index("reset")
        for attempt in range(10):
            r2, _ = fl.shard_run(b, "reader-seq", [c, ref], d, "rin", nshards=1, extra=("--watchdog", "30s"))
            if [observable(x, c["conc"]) for x in r2[c["id"]]["calls"][k + 1:]] != [observable(x, c["conc"]) for x in r2[ref["id"]]["calls"]]:
                print("VIOLATION property=%s replay=%s" % (ctx.prop, path))
                return 1
        print("replay: deviation not observed")
        return 0
    if rp["kind"] == "c17-writer":
        recs, _ = fl.shard_run(b, "frame-write", [rp["case"]], d, "again", nshards=1, extra=("--watchdog", "30s"))
        rej = fl.validate_writer_runs(ctx, [recs[rp["case"]["id"]]], d)
    else:
        fw = dict(rp["frame"], save=os.path.join(d, "frame.lz4"))
        fl.shard_run(b, "frame-write", [fw], d, "fw", nshards=1)
        c = dict(rp["case"], chunks=[{"file": fw["save"]}])
        rr, _ = fl.shard_run(b, "reader-seq", [c], d, "r", nshards=1, extra=("--watchdog", "30s"))
        tp = os.path.join(d, "t.ndjson")
        vlib.write_ndjson(tp, rseq_events(rr[c["id"]], fw["input"]["len"]))
        acc, rej = vlib.validate_trace(ctx, "Reader_Trace", tp, shards=1)
    if rej:
        print("VIOLATION property=C17 replay=%s" % path)
        return 1
    print("replay: deviation not observed")
    return 0


def selftest(ctx):
    b = vlib.build_harness()
    d = vlib.scratch("c17s")
    case = {"id": 1, "input": {"family": "text", "len": 3000, "seed": 1}, "hist": 0,
            "opts": {"code": 4, "bcs": False, "ccs": True, "level": 0, "conc": 1, "legacy": False, "handler": False},
            "calls": [{"op": "write", "n": 3000}, {"op": "close"}, {"op": "write", "n": 0}, {"op": "close"}]}
    recs, _ = fl.shard_run(b, "frame-write", [case], d, "st", nshards=1)
    w = recs[1]
    if fl.validate_writer_runs(ctx, [w], d):
        raise vlib.MachineryFault("selftest C17: valid run rejected")
    w2 = json.loads(json.dumps(w))
    w2["calls"][4]["sink"] += 8          # a second Close that wrote 8 more bytes
    w2["calls"][4]["calls"] += 1
    if len(fl.validate_writer_runs(ctx, [w2], d)) != 1:
        raise vlib.MachineryFault("selftest C17: output after the second Close not rejected")
    print("selftest C17 ok")
    return 0
