"""C05 - see checks/readfuzz.py (shared driver: Reader on mutated / truncated / hostile input)."""
from checks import readfuzz


def run(ctx):
    readfuzz.run(ctx, "C05")


def replay(ctx, path):
    return readfuzz.replay(ctx, "C05", path)


def selftest(ctx):
    return readfuzz.selftest(ctx, "C05")
