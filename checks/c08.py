"""C08 - the concurrent pipelines are race-free, ordered, deadlock-free and leak-free.

 spec:  PipelineW.tla, PipelineR.tla (producer / workers / orderer; reader / decoders / collector / consumer, Go channel
        semantics, buffer ownership)
 MC:    every interleaving for the tier's (blocks, queue capacity, failure position) configurations: Ordered,
        NoUseAfterPut, ClosedMeansFlushed / FinalResult, NoGoroutineLeft, no deadlock, <>AllDone under weak fairness
 val:   PipelineW_Trace / PipelineR_Trace: hook events (before every send/close, after every receive, one global
        order) of real runs under seeded schedule perturbation are replayed on the models; the FIFO discipline, the
        write / delivery order, the shutdown handshake and "no buffer returns to the pool before the orderer closed
        its block's channel" are bound to the logged channel and buffer identities
 sensors (judged by the trace spec's pend event): Go race detector (the harness is built with -race), pool poisoning
        (a buffer returned to the pool is filled with 0xDB and checked when it is taken again), goroutines left after
        Close / end of stream / error (stack scan after a settle loop), watchdog, correctness of the result
"""
import json
import os
import random

import vlib
from checks import framelib as fl

NMAX = 40


def mc_all(ctx, q):
    for n, num, f in ((4, 2, 0), (4, 2, 3), (3, 4, 0), (0, 2, 0)) + (() if q else ((5, 3, 2), (5, 2, 0), (6, 2, 0), (5, 4, 5))):
        cfg = ("SPECIFICATION Spec\nCONSTANTS\n  N = %d\n  Num = %d\n  FailAt = %d\nINVARIANTS\n  Ordered\n  NoUseAfterPut\n  ClosedMeansFlushed\n"
               "  WorkersNeverBlockedAfterClose\nPROPERTY EventuallyAllDone\n" % (n, num, f))
        ctx.mc("PipelineW", cfg_text=cfg, timeout=1800)
    # several lives of one Writer (Close / Reset, early Close, a new orderer while old workers finish)
    for n, num, f, lives in ((4, 2, 2, 3), (3, 3, 0, 3)) + (() if q else ((5, 2, 0, 3), (4, 2, 4, 4), (4, 3, 1, 3))):
        cfg = ("SPECIFICATION SpecL\nCONSTANTS\n  N = %d\n  Num = %d\n  FailAt = %d\n  MaxLives = %d\nINVARIANTS\n  Ordered\n  NoUseAfterPut\n"
               "  ClosedMeansFlushedL\n  LivesDoNotMix\n  WorkersNeverBlockedAfterCloseL\nPROPERTY EventuallyDoneL\n" % (n, num, f, lives))
        ctx.mc("PipelineWL", cfg_text=cfg, timeout=1800)
    for n, num, df, sf, em in ((3, 2, 0, 0, "{}"), (4, 2, 2, 0, "{}"), (4, 2, 0, 3, "{2}"), (3, 2, 0, 4, "{}"), (0, 2, 0, 0, "{}"), (3, 2, 0, 0, "{3}"), (4, 2, 3, 0, "{2}")) + \
            (() if q else ((5, 2, 3, 0, "{}"), (4, 3, 4, 0, "{1}"), (5, 3, 1, 4, "{}"), (6, 2, 0, 0, "{6}"))):
        cfg = ("SPECIFICATION Spec\nCONSTANTS\n  N = %d\n  Num = %d\n  DecodeFailAt = %d\n  SourceFailAt = %d\n  EmptyBlocks = %s\nINVARIANTS\n  Ordered\n  FinalResult\n"
               "  NoGoroutineLeft\n  DeliveredBeforeError\nPROPERTY EventuallyAllDone\n" % (n, num, df, sf, em))
        ctx.mc("PipelineR", cfg_text=cfg, timeout=1800)


def make_cases(ctx, rnd):
    q = ctx.tier == "quick"
    cases = []
    B = 65536
    nw = 160 if q else 2500
    for i in range(nw):
        conc = [2, 3, 4, 16][i % 4]
        nb = rnd.choice([1, 2, 3, 4, 5, 8, 12])
        total = nb * B - rnd.choice([0, 1, 7, B // 2])
        o = {"code": 4, "bcs": i % 2 == 0, "ccs": i % 3 != 0, "level": 0, "conc": conc, "legacy": False, "handler": True}
        kind = i % 5
        if kind == 0:
            calls = [{"op": "write", "n": total}, {"op": "close"}]
        elif kind == 1:
            calls, left = [], total
            while left > 0:
                n = min(left, rnd.choice([1, 100, B - 1, B, B + 1, 3 * B]))
                calls.append({"op": "write", "n": n})
                left -= n
                if rnd.random() < 0.3:
                    calls.append({"op": "flush"})
            calls.append({"op": "close"})
        elif kind == 2:
            calls = [{"op": "readfrom", "n": 0}, {"op": "close"}]
        elif kind == 3:
            calls = [{"op": "write", "n": total // 2}, {"op": "flush"}, {"op": "write", "n": total - total // 2}, {"op": "flush"}, {"op": "close"}]
        else:
            calls = [{"op": "write", "n": total}, {"op": "close"}]
        c = {"id": len(cases) + 1, "kind": "writer", "input": {"family": rnd.choice(["text", "blockmix", "random"]), "len": total, "seed": i, "p1": B},
             "opts": o, "calls": calls, "seed": ctx.seed * 1000 + i, "perturb": rnd.choice([0, 10, 40, 80]), "poison": True}
        if kind == 4:
            c["failAt"] = rnd.randrange(1, 3 * nb + 2)
        if i % 6 == 0:
            c["slowio"] = rnd.choice([50, 300])
        cases.append(c)
    # several lives of one Writer (sensors only): Close then Reset and reuse, Close twice, Reset without Close
    for i in range(40 if q else 400):
        total = rnd.choice([B + 5, 3 * B, 5 * B + 1])
        mid = total // 2
        lives = rnd.choice([
            [{"op": "write", "n": mid}, {"op": "close"}, {"op": "reset"}, {"op": "write", "n": total - mid}, {"op": "close"}],
            [{"op": "write", "n": total}, {"op": "close"}, {"op": "close"}],
            [{"op": "write", "n": mid}, {"op": "reset"}, {"op": "write", "n": total - mid}, {"op": "close"}],
            [{"op": "write", "n": mid}, {"op": "flush"}, {"op": "close"}, {"op": "reset"}, {"op": "readfrom", "n": 0}, {"op": "close"}, {"op": "reset"}]])
        cases.append({"id": len(cases) + 1, "kind": "writer", "lives": True, "input": {"family": "text", "len": total, "seed": i},
                      "opts": {"code": 4, "bcs": False, "ccs": True, "level": 0, "conc": [2, 4][i % 2], "legacy": False, "handler": True},
                      "calls": lives, "seed": ctx.seed * 1000 + 500 + i, "perturb": rnd.choice([0, 40]), "poison": True})
    nr = 160 if q else 2500
    for i in range(nr):
        conc = [2, 3, 4, 16][i % 4]
        nb = rnd.choice([1, 2, 3, 4, 5, 8, 12])
        total = nb * B - rnd.choice([0, 1, 7, B // 2])
        o = {"code": 4, "bcs": i % 2 == 0, "ccs": True, "level": 0, "conc": conc, "legacy": False, "handler": False}
        cfg = {"conc": conc, "mode": ["read", "writeto"][i % 2], "bufs": [rnd.choice([4096, B, 3 * B, 1000])]}
        c = {"id": len(cases) + 1, "kind": "reader", "input": {"family": rnd.choice(["text", "blockmix"]), "len": total, "seed": i, "p1": B},
             "opts": o, "cfg": cfg, "seed": ctx.seed * 1000 + 700 + i, "perturb": rnd.choice([0, 10, 40, 80]), "poison": True}
        k = i % 4
        if k == 1:        # a decoding error somewhere: flip a payload byte (checksums make it an error)
            c["ops"] = [[2, rnd.randrange(40, 2000 + 100 * nb), rnd.randrange(8)]]
        elif k == 2:      # a source error at some call
            c["cfg"]["failat"] = rnd.randrange(1, 3 * nb + 4)
        elif k == 3:      # frames containing zero-length blocks (ReadFrom of a multiple of the block size; Flush-cut blocks)
            c["input"]["len"] = nb * B
            c["calls"] = rnd.choice([[{"op": "readfrom", "n": 0}, {"op": "close"}],
                                     [{"op": "write", "n": B}, {"op": "flush"}, {"op": "readfrom", "n": 0}, {"op": "close"}] if False else
                                     [{"op": "readfrom", "n": 0}, {"op": "close"}]])
        if i % 6 == 0:
            c["slowio"] = rnd.choice([50, 300])
        cases.append(c)
    # several undecodable blocks in flight at once (block checksums of stored blocks): the decoders latch their errors
    # concurrently
    for i in range(16 if q else 200):
        conc = [4, 16, 3][i % 3]
        nb = rnd.choice([4, 6, 8, 12])
        stride = 4 + B + 4
        badblocks = sorted(rnd.sample(range(nb), rnd.randrange(2, min(nb, 6) + 1)))
        cases.append({"id": len(cases) + 1, "kind": "reader", "input": {"family": "random", "len": nb * B, "seed": 90 + i},
                      "opts": {"code": 4, "bcs": True, "ccs": True, "level": 0, "conc": 1, "legacy": False, "handler": False},
                      "cfg": {"conc": conc, "mode": ["read", "writeto"][i % 2], "bufs": [rnd.choice([4096, B, 1000])]},
                      "ops": [[2, 7 + k * stride + 4 + rnd.randrange(B), rnd.randrange(8)] for k in badblocks],
                      "seed": ctx.seed * 1000 + 1600 + i, "perturb": rnd.choice([0, 10, 40]), "poison": True})
    # a Reader that served an earlier stream up to exactly its last byte (the end of the stream was never asked for) and
    # was Reset: its pipeline has finished on its own, every buffer went back to the pool exactly once
    for i in range(16 if q else 200):
        conc = [2, 4, 16][i % 3]
        nb = rnd.choice([1, 2, 3, 5])
        total = nb * B - rnd.choice([0, 0, 7])
        cases.append({"id": len(cases) + 1, "kind": "reader", "input": {"family": "text", "len": total, "seed": 40 + i, "p1": B},
                      "opts": {"code": 4, "bcs": i % 2 == 0, "ccs": True, "level": 0, "conc": 1, "legacy": False, "handler": False},
                      "cfg": {"conc": conc, "mode": ["read", "writeto"][i % 2], "bufs": [rnd.choice([4096, B, 1000])], "preBytes": total,
                              "preBuf": rnd.choice([4096, B, 3 * B, 1000])},
                      "seed": ctx.seed * 1000 + 1200 + i, "perturb": rnd.choice([0, 10, 40]), "poison": True})
    # a Reader whose WriteTo stopped on a failing sink (its pipeline is still alive: nothing is promised about it), Reset and
    # used again: the new stream must not share anything with the old goroutines (race detector), and is read correctly
    for i in range(12 if q else 150):
        conc = [2, 4, 16][i % 3]
        nb = rnd.choice([3, 5, 8])
        total = nb * B - rnd.choice([0, 7])
        cases.append({"id": len(cases) + 1, "kind": "reader", "leakok": True, "input": {"family": "text", "len": total, "seed": 140 + i, "p1": B},
                      "opts": {"code": 4, "bcs": i % 2 == 0, "ccs": True, "level": 0, "conc": 1, "legacy": False, "handler": False},
                      "cfg": {"conc": conc, "mode": ["read", "writeto"][i % 2], "bufs": [rnd.choice([4096, B])], "preBytes": total, "preSinkFail": rnd.choice([1, B, B + 5, 2 * B])},
                      "seed": ctx.seed * 1000 + 1800 + i, "perturb": rnd.choice([0, 10, 40]), "poison": True, "slowio": rnd.choice([0, 50])})
    # a concurrent Writer whose sink failed, then Close, then Close again / Reset and a new frame: every call returns
    for i in range(16 if q else 200):
        conc = [2, 4, 16][i % 3]
        nb = rnd.choice([2, 3, 5])
        total = nb * B + 5
        tail = [[{"op": "close"}, {"op": "close"}], [{"op": "close"}, {"op": "reset"}, {"op": "write", "n": 0}, {"op": "close"}],
                [{"op": "close"}, {"op": "close"}, {"op": "close"}, {"op": "reset"}, {"op": "write", "n": B + 1}, {"op": "close"}]][i % 3]
        cases.append({"id": len(cases) + 1, "kind": "writer", "lives": True, "input": {"family": "text", "len": total, "seed": 60 + i},
                      "opts": {"code": 4, "bcs": False, "ccs": True, "level": 0, "conc": conc, "legacy": False, "handler": True},
                      "calls": [{"op": "write", "n": total}] + tail, "failAt": 1 if i % 4 == 0 else rnd.randrange(2, 2 * nb + 2),
                      "seed": ctx.seed * 1000 + 1400 + i, "perturb": rnd.choice([0, 40]), "poison": True})
    # legacy frames written concurrently (8 MiB blocks; no end mark, so Close has nothing to write but still has to wait for
    # the pipeline and report its error)
    for i in range(6 if q else 40):
        conc = [2, 4, 16][i % 3]
        total = [100000, (8 << 20) + 5, 8 << 20, (16 << 20) + 70000][i % 4 if not q else i % 2]
        calls = [[{"op": "write", "n": total}, {"op": "close"}], [{"op": "readfrom", "n": 0}, {"op": "close"}],
                 [{"op": "write", "n": total // 2}, {"op": "flush"}, {"op": "write", "n": total - total // 2}, {"op": "close"}]][i % 3]
        c = {"id": len(cases) + 1, "kind": "writer", "input": {"family": "text", "len": total, "seed": 300 + i},
             "opts": {"code": 4, "bcs": False, "ccs": False, "level": 0, "conc": conc, "legacy": True, "handler": True},
             "calls": calls, "seed": ctx.seed * 1000 + 2000 + i, "perturb": rnd.choice([0, 40]), "poison": True}
        if i % 3 == 2:
            c["slowio"] = 50
        if i >= 4 and i % 2 == 0:
            c["failAt"] = rnd.randrange(2, 4)
        cases.append(c)
    # a block that decodes to nothing (token 0x00) in the middle of the stream, valid blocks after it, then a block that
    # cannot be decoded, and a slow consumer: the decoding error is latched before the consumer sees the empty block
    # (TLC's counterexample to NoGoroutineLeft before fix 062dfed, D25)
    for i in range(24 if q else 400):
        conc = [3, 4, 16][i % 3]
        nb = rnd.choice([4, 5, 6, 8])
        e = rnd.randrange(1, nb - 1)
        f = rnd.randrange(e + 2, nb + 1)
        at = 7 + (e - 1) * (4 + B)
        bad = 7 + 5 + (f - 1) * (4 + B)
        ops = [[7, at, 1, 0, 0, 0, 0], [3, bad + 3, 0], [3, bad + 4, 0], [3, bad + 5, 0], [3, bad + 6, 0]]
        if i % 4 == 3:
            ops = ops[:1]                      # the empty block alone: a clean stream
        cases.append({"id": len(cases) + 1, "kind": "reader", "input": {"family": "random", "len": nb * B, "seed": i},
                      "opts": {"code": 4, "bcs": False, "ccs": True, "level": 0, "conc": 1, "legacy": False, "handler": False},
                      "cfg": {"conc": conc, "mode": ["read", "writeto"][i % 2], "bufs": [rnd.choice([4096, B, 1000])],
                              "prime": rnd.choice([0, 500, 5000, 30000])},
                      "ops": ops, "seed": ctx.seed * 1000 + 900 + i, "perturb": rnd.choice([0, 10, 40]), "poison": True})
    return cases


def to_trace(c, r, race=""):
    """hook events of one run -> trace events for the pipeline trace specifications"""
    # (leakok: the run abandons a pipeline in a way for which C08 promises nothing about its goroutines)
    base = {"hung": r["hung"], "panicked": r.get("panicked", ""), "race": race, "poison": r["poison"], "leaked": 0 if c.get("leakok") else r["leaked"]}
    if r["hung"]:
        return [dict(base, ev="psens", case=c["id"], good=False)]
    ev = [{"ev": "pnew", "case": c["id"]}]
    events = r["events"] or []
    if not any(e[1] in ("p.queue", "r.enqueue", "r.finq", "p.closeq") for e in events):
        # the pipeline never started (error before the first block): sensors only
        good = (r.get("outcome") == "error" and c["cfg"].get("failat", 0) > 0 or bool(c.get("ops"))) if c["kind"] == "reader" else \
            r.get("status") == "ok" or r.get("injected", False) or c.get("lives", False)
        return [dict(base, ev="psens", case=c["id"], good=bool(good))]
    if c["kind"] == "writer":
        # blocks are numbered in submission order across the lives of the Writer; every sentinel channel is NMAX + 1
        sentinels = {e[2] for e in events if e[1] == "p.closeq"}
        number, data_of, block_of = {}, {}, {}
        closed = False
        for seq, site, ch, buf, ln in events:
            if site == "pool.get":
                continue
            if site == "pool.put":
                blk, kind = 0, "none"
                if buf in data_of:
                    blk, kind = data_of.pop(buf), "data"
                elif buf in block_of:
                    blk, kind = block_of.pop(buf), "block"
                ev.append({"ev": "pool.put", "case": c["id"], "ch": 0, "blk": blk, "kind": kind})
                continue
            if site == "p.queue":
                number[ch] = len(number) + 1
            n = NMAX + 1 if ch in sentinels else number.get(ch, 0)
            if site in ("p.queue", "p.closeq") and closed:
                ev.append({"ev": "preopen", "case": c["id"], "ch": 0})
                closed = False
            if site == "p.closed":
                closed = True
            if site == "p.queue":
                data_of[buf] = n
            if site == "o.write" and buf and buf not in data_of:
                block_of[buf] = n
            ev.append({"ev": site, "case": c["id"], "ch": n})
        lives = bool(c.get("lives"))
        ev.append(dict(base, ev="pend", case=c["id"], status=r["status"], same=bool(r.get("lastSegOK")) if lives else r["same"],
                       injected=r["injected"], lives=lives))
    else:
        sent = next((e[2] for e in events if e[1] == "r.finq"), None)
        ren = lambda ch: NMAX + 1 if ch == sent else ch
        for seq, site, ch, buf, ln in events:
            if site.startswith("pool."):
                continue
            ev.append({"ev": site, "case": c["id"], "ch": ren(ch), "buf": buf, "len": ln})
        ev.append(dict(base, ev="pend", case=c["id"], outcome=r["outcome"], same=r["same"], prefixok=r["prefixok"], mutated=r["mutated"]))
    return ev


def run(ctx):
    q = ctx.tier == "quick"
    ctx.rule = ("concurrent Writers (concurrency 2/3/4/16, 1..12 blocks, Write / chunked Write+Flush / ReadFrom, sink failure at call k, slow sink, "
                "handler installed, several lives with Reset and double Close) and concurrent Readers (Read / WriteTo, decoding error at a "
                "flipped byte, source error at call k, slow source), each under a seeded schedule perturbation with pool poisoning and the "
                "race detector; distinct = distinct (scenario, perturbation seed)")
    b = vlib.build_harness(race=True)
    d = vlib.scratch("c08")
    rnd = random.Random(ctx.seed * 61 + 8)
    mc_all(ctx, q)
    cases = make_cases(ctx, rnd)
    env = {"GORACE": "halt_on_error=1 exitcode=66"}
    recs, faults = shard_run_env(b, cases, d, "p", env)
    ctx.evaluations += len(cases)
    ctx.distinct += len(cases)
    by_id = {c["id"]: c for c in cases}
    # a case without a record killed its process: the race detector (exit 66) or a crash
    missing = [c for c in cases if c["id"] not in recs]
    for c in missing[:12]:
        confirm_death(ctx, b, d, c, env)
    tw, tr = os.path.join(d, "w.ndjson"), os.path.join(d, "r.ndjson")
    with open(tw, "w") as fw, open(tr, "w") as fr:
        for c in cases:
            if c["id"] not in recs:
                continue
            f = fw if c["kind"] == "writer" else fr
            for e in to_trace(c, recs[c["id"]]):
                f.write(json.dumps(e, separators=(",", ":")) + "\n")
    ex = next(c for c in cases if c["kind"] == "writer" and not c.get("lives") and c["id"] in recs)
    ctx.sample({"scenario": {k: v for k, v in ex.items() if k != "input"}, "trace_events": to_trace(ex, recs[ex["id"]])[:14]})
    rej = []
    for mod, path in (("PipelineW_Trace", tw), ("PipelineR_Trace", tr)):
        acc, rj = vlib.validate_trace(ctx, mod, path, timeout=3000, max_reject=5)
        rej += [(mod, x) for x in rj]
    for mod, rj in rej:
        rec = json.loads(rj["line"])
        c = by_id[rec["case"]]
        r = recs[c["id"]]
        key = key_of(c, r, rec)
        if any(v[0] == key for v in ctx.violations):
            continue
        again = None
        for attempt in range(20):
            rr, ff = shard_run_env(b, [c], d, "again", env, nshards=1)
            if c["id"] not in rr:
                confirm_death(ctx, b, d, c, env)
                again = "died"
                break
            t2 = os.path.join(d, "again.ndjson")
            vlib.write_ndjson(t2, to_trace(c, rr[c["id"]]))
            sub = vlib.Ctx(ctx.prop, ctx.tier, ctx.seed)
            a2, rej2 = vlib.validate_trace(sub, mod, t2, shards=1)
            if rej2:
                again = (rr[c["id"]], json.loads(rej2[0]["line"]))
                break
        if again is None:
            ctx.unreproducible("%s: %s" % (key, rj["line"][:300]))
            continue
        if again == "died":
            continue
        r2, rec2 = again
        obs = {k: v for k, v in r2.items() if k != "events"}
        obs["events"] = r2["events"][:120]
        ctx.violation(key_of(c, r2, rec2), "concurrent %s run is not a behaviour of the pipeline model / a sensor fired: %s" % (c["kind"], key_of(c, r2, rec2)),
                      {"kind": "c08", "case": c, "observed": obs, "rejected_event": rec2})
    # spec -> code: TLC behaviours forced onto the goroutines through the blocking hook
    from checks import gatereplay
    gatereplay.run(ctx, b, d, rnd)
    ctx.trusted += ["Go race detector, pool poisoning through the verif pool hook, goroutine stack scan, watchdog",
                    "verif pipeline hooks (H2) as the source of the event log"]
    ctx.assumptions += ["the code's schedules are sampled (seeded perturbation at hook sites), the model's are explored exhaustively",
                        "a Reader abandoned mid-stream and a WriteTo whose sink failed are outside the leak clause (C08 names Close, end of stream, source / decoding error)"]


def key_of(c, r, rec):
    if rec["ev"] in ("pend", "psens"):
        what = ("hang" if r["hung"] else "panic" if r.get("panicked") else "poison" if r["poison"] else "leak" if r["leaked"] else "result")
        return "C08:%s:%s:%s" % (c["kind"], "lives" if c.get("lives") else "single", what)
    return "C08:%s:protocol:%s" % (c["kind"], rec["ev"])


def shard_run_env(b, cases, d, tag, env, nshards=None):
    import subprocess
    old = dict(vlib.GOENV)
    vlib.GOENV.update(env)
    try:
        return fl.shard_run(b, "pipe-run", cases, d, tag, extra=("--watchdog", "30s"), nshards=nshards, timeout=3000)
    finally:
        vlib.GOENV.clear()
        vlib.GOENV.update(old)


def confirm_death(ctx, b, d, c, env):
    """the process died on this case: run it alone (up to 10 times) and look at why"""
    import subprocess
    cp = os.path.join(d, "death.ndjson")
    vlib.write_ndjson(cp, [c])
    for attempt in range(10):
        try:
            p = subprocess.run([b, "pipe-run", "--cases", cp, "--out", os.path.join(d, "death-out.ndjson"), "--watchdog", "60s"],
                               env=dict(vlib.GOENV, **env), stdout=subprocess.PIPE, stderr=subprocess.PIPE, text=True, timeout=150)
        except subprocess.TimeoutExpired:
            ctx.violation("C08:%s:process-stuck" % c["kind"], "the run never returns (not even the watchdog path)", {"kind": "c08-death", "case": c, "stderr": "timeout"})
            return
        if p.returncode != 0:
            race = "DATA RACE" in p.stderr
            key = "C08:%s:%s" % (c["kind"], "data-race" if race else "process-died")
            ctx.violation(key, "the run %s" % ("contains a data race (Go race detector)" if race else "killed the process"),
                          {"kind": "c08-death", "case": c, "stderr": p.stderr[-3000:]})
            return
    ctx.unreproducible("process death on case %d did not reproduce" % c["id"])


def replay(ctx, path):
    rp = json.load(open(path))
    b = vlib.build_harness(race=True)
    d = vlib.scratch("c08r")
    env = {"GORACE": "halt_on_error=1 exitcode=66"}
    c = rp["case"]
    mod = "PipelineW_Trace" if c["kind"] == "writer" else "PipelineR_Trace"
    for attempt in range(20):
        rr, ff = shard_run_env(b, [c], d, "again", env, nshards=1)
        if c["id"] not in rr:
            print("VIOLATION property=C08 replay=%s" % path)
            return 1
        t2 = os.path.join(d, "again.ndjson")
        vlib.write_ndjson(t2, to_trace(c, rr[c["id"]]))
        a2, rej2 = vlib.validate_trace(ctx, mod, t2, shards=1)
        if rej2:
            print("VIOLATION property=C08 replay=%s" % path)
            return 1
    print("replay: deviation not observed in 20 runs")
    return 0


def selftest(ctx):
    b = vlib.build_harness(race=True)
    d = vlib.scratch("c08s")
    c = {"id": 1, "kind": "writer", "input": {"family": "text", "len": 200000, "seed": 1},
         "opts": {"code": 4, "bcs": False, "ccs": True, "level": 0, "conc": 2, "legacy": False, "handler": True},
         "calls": [{"op": "write", "n": 200000}, {"op": "close"}], "seed": 5, "perturb": 30, "poison": True}
    rr, _ = shard_run_env(b, [c], d, "st", {"GORACE": "halt_on_error=1 exitcode=66"}, nshards=1)
    ev = to_trace(c, rr[1])
    bad = json.loads(json.dumps(ev))
    # swap the order of two dequeues: blocks leave the queue out of order
    idx = [i for i, e in enumerate(bad) if e["ev"] == "o.dequeue"]
    bad[idx[0]]["ch"], bad[idx[1]]["ch"] = bad[idx[1]]["ch"], bad[idx[0]]["ch"]
    bad2 = json.loads(json.dumps(ev))
    # a source buffer returned to the pool before the orderer closed its block
    k = next(i for i, e in enumerate(bad2) if e["ev"] == "pool.put" and e["kind"] == "data")
    j = next(i for i, e in enumerate(bad2) if e["ev"] == "o.take" and e["ch"] == bad2[k]["blk"])
    bad2.insert(j, bad2.pop(k))
    for name, e, want in (("good", ev, 0), ("bad-order", bad, 1), ("bad-put", bad2, 1)):
        tp = os.path.join(d, name + ".ndjson")
        vlib.write_ndjson(tp, e)
        acc, rej = vlib.validate_trace(ctx, "PipelineW_Trace", tp, shards=1)
        if len(rej) != want:
            raise vlib.MachineryFault("selftest C08: %s trace gave %d rejections %s" % (name, len(rej), [x["line"][:200] for x in rej]))
    print("selftest C08 ok")
    return 0
