"""C12 - see checks/blockdec.py (shared block-decoder driver)."""
from checks import blockdec


def run(ctx):
    blockdec.run(ctx, "C12")


def replay(ctx, path):
    return blockdec.replay(ctx, "C12", path)


def selftest(ctx):
    return blockdec.selftest(ctx, "C12")
