"""Shared driver of the block-compressor checks C01 (round trip), C10 (strict validity),
C11 (destination contract) and C14 (determinism, block level; the frame level is added by
checks/c14.py).

 spec:  BlockAPI.tla (objects, pools, call keys, memo = determinism), LZ4Block.tla (meaning of a block,
        StrictValid, CompressBound)
 MC:    Gen_BlockAPI (all API histories of <= 3 calls over 4 objects x 3 input slots; Deterministic),
        MC_LZ4Block (lemma DecodeBySeqs that justifies the field-level grain)
 gen:   Gen_BlockAPI histories concretised with seeded inputs; Gen_BlockGrid (length x period x dstLen x kind)
 val:   BlockAPI_Trace_<prop>: every recorded call is judged by TLC - at byte level TLC decodes the emitted
        block itself, at field level it checks the sequence triples and the equalities the harness evaluated
"""
import itertools
import json
import os
import random
import subprocess
import concurrent.futures as cf

import vlib

LEVELS = [1 << (8 + i) for i in range(1, 10)]   # Level1..Level9 = 512 .. 131072


def small_input(rnd, n=None):
    n = rnd.choice([0, 1, 4, 5, 12, 13, 14, 15, 16, 17, 20, 33, 64, 96]) if n is None else n
    fam = rnd.choice(["random", "lowentropy", "periodic", "text", "runs", "zeros"])
    return {"family": fam, "len": n, "seed": rnd.randrange(1 << 30), "p1": rnd.randrange(1, 9)}


def big_input(rnd, tier):
    r = rnd.random()
    if r < 0.35:
        d = rnd.choice([65534, 65535, 65536, 65537, 131071, 131072, 131073])
        m = rnd.choice([4, 5, 18, 19, 20, 273, 274])
        return {"family": "plant", "len": d + m + rnd.choice([40, 300, 70000]), "seed": rnd.randrange(1 << 30), "p1": d, "p2": m}
    if r < 0.5:
        return {"family": "alias", "len": rnd.choice([140000, 200000, 270000]), "seed": rnd.randrange(1 << 30)}
    if r < 0.65:
        return {"family": "runs", "len": rnd.choice([200, 600, 5000, 70000]), "seed": rnd.randrange(1 << 30)}
    base = rnd.choice([65536, 131072] + ([1 << 20, 4 << 20] if tier == "thorough" or rnd.random() < 0.08 else [262144]))
    n = base + rnd.choice([-1, 0, 1, 13, 17])
    fam = rnd.choice(["periodic", "zeros", "random", "mixed"] + (["text"] if n <= 300000 else []))
    return {"family": fam, "len": n, "seed": rnd.randrange(1 << 30), "p1": rnd.choice([1, 2, 3, 7, 255, 4096, 65535, 65536, 65537])}


def worst_case_size(n):
    """BoundLemma!WorstCaseSize: the literal-only block of n bytes"""
    return n + 1 + ((n - 15) // 255 + 1 if n >= 15 else 0)


def bound_lemma(ctx, b):
    """BoundLemma (TLC up to MaxN, Apalache for every n), then the code's CompressBlockBound on a grid of lengths: where it
    is below WorstCaseSize the generator adds an executed case (the verdict comes from that call, not from the comparison)."""
    ctx.mc("BoundLemma", timeout=600, workers=4)
    done = 0
    for inv in ("Sufficient", "Slack"):
        ok, text = vlib.run_apalache("BoundLemma", "IndInit", inv, 0, cinit="CInit")
        if ok is None:
            ctx.notes.append("apalache could not be run: BoundLemma for every n skipped (TLC covers n <= 300000)")
            break
        if not ok:
            raise vlib.MachineryFault("Apalache refutes BoundLemma!%s (model-level finding):\n%s" % (inv, text))
        done += 1
    grid = sorted(set([0, 1, 14, 15, 16, 254, 255, 256, 269, 270, 271] + [x + dlt for e in range(9, 31) for x in (1 << e, 3 << (e - 1))
                                                                         for dlt in (-1, 0, 1, 14, 15, 16) if x + dlt < (1 << 30) + 1]
                      + [255 * k + 15 + dlt for k in (1, 2, 257, 4096, 65536, 1 << 20) for dlt in (-1, 0, 1)]))
    p = subprocess.run([b, "bound-grid"] + [str(n) for n in grid], stdout=subprocess.PIPE, text=True, timeout=120)
    if p.returncode != 0:
        raise vlib.MachineryFault("bound-grid failed")
    real = json.loads(p.stdout)
    short = [n for n in grid if real[str(n)] < worst_case_size(n)]
    ctx.extra["bound_grid"] = {"lengths": len(grid), "max": max(grid), "code_bound_below_worst_case": len(short), "apalache": done}
    ctx.extra["bound_grid_short"] = [n for n in short if n <= (64 << 20)]
    ctx.evaluations += len(grid)


def depth_of(cls, kind, rnd):
    if kind == "fast":
        return 0
    if cls == 0:
        return 0
    if cls == 1:
        return 1
    return rnd.choice([2, 3, 16] + LEVELS + [65537, (1 << 31) - 1])


def build_cases(ctx, histories, grid, d):
    q = ctx.tier == "quick"
    rnd = random.Random(ctx.seed * 7919 + 13)
    cases = []

    def add(calls, par=0):
        cases.append({"id": len(cases) + 1, "calls": calls, "par": par})

    # (1) TLC's API histories, concretised
    hs = histories if not q else rnd.sample(histories, 1500)
    for h in hs:
        bigslot = rnd.random() < (0.06 if q else 0.03)
        slot = {s: (big_input(rnd, ctx.tier) if bigslot and s == "B" else small_input(rnd)) for s in "ABC"}
        calls = []
        for c in h["calls"]:
            kind = c["obj"][0]
            calls.append({"obj": c["obj"], "input": slot[c["input"]], "depth": depth_of(c["depth"], kind, random.Random(str(c["depth"]) + str(h["calls"][0]))),
                          "dstLen": -1 if c["dst"] == "bound" else max(0, slot[c["input"]]["len"] * 2 // 3),
                          "spare": rnd.choice([0, 1, 64, 4096])})
        add(calls)
    # (2) every string over two symbols up to the tier's length, all four entry points, objects reused
    maxl = 11 if q else 15
    strings = [list(t) for n in range(0, maxl + 1) for t in itertools.product((97, 98), repeat=n)]
    objs = [["fast", "f1"], ["fast", "pool"], ["hc", "h1"], ["hc", "pool"]]
    for i in range(0, len(strings), 48):
        calls = []
        for s in strings[i:i + 48]:
            for o in objs:
                calls.append({"obj": o, "input": {"family": "bytes", "len": len(s), "seed": 0, "bytes": s},
                              "depth": 0 if o[0] == "fast" else rnd.choice([0, 1, 2]), "dstLen": -1, "spare": 0})
        add(calls)
    # (3) TLC's grid
    for i in range(0, len(grid), 60):
        calls = []
        for g in grid[i:i + 60]:
            calls.append({"obj": [g["kind"], rnd.choice(["g1", "pool"])],
                          "input": {"family": "bytes", "len": len(g["src"]), "seed": 0, "bytes": g["src"]},
                          "depth": g["depth"], "dstLen": g["dstLen"], "spare": [0, 1, 64, 4096][(g["dstLen"] + g["n"]) % 4]})
        add(calls)
    # (4) seeded families: sampled small inputs with destination classes, and large inputs
    for _ in range(300 if q else 6000):
        calls = []
        for _ in range(8):
            inp = small_input(rnd, rnd.randrange(17, 161) if rnd.random() < 0.7 else None)
            kind = rnd.choice(["fast", "hc"])
            n = inp["len"]
            bound = n + n // 255 + 16
            calls.append({"obj": [kind, rnd.choice(["s1", "pool"])], "input": inp, "depth": depth_of(rnd.choice([0, 1, 2]), kind, rnd),
                          "dstLen": rnd.choice([-1, -1, -8, 0, 1, 2, bound - 1, max(0, n - 1), rnd.randrange(0, bound + 1)]),
                          "spare": rnd.choice([0, 1, 64, 4096])})
        add(calls)
    for _ in range(60 if q else 1200):
        inp = big_input(rnd, ctx.tier)
        calls = []
        for kind in ("fast", "hc"):
            dcls = rnd.choice([1, 2]) if inp["len"] > 300000 or inp["family"] in ("zeros", "periodic") else rnd.choice([0, 1, 2])
            calls.append({"obj": [kind, rnd.choice(["b1", "pool"])], "input": inp,
                          "depth": depth_of(dcls, kind, rnd) if kind == "hc" else 0,
                          "dstLen": rnd.choice([-1, -1, -1, inp["len"], inp["len"] // 2]), "spare": rnd.choice([0, 64])})
        add(calls)
    # window-edge plants, systematically: distance x match length x background
    for dist in (65534, 65535, 65536, 65537):
        for m in (6, 20, 274):
            for bg in (0, 1, 2):
                inp = {"family": "plant", "len": dist + m + 200 + 37 * bg, "seed": 3 * rnd.randrange(1 << 20) + bg, "p1": dist, "p2": m}
                add([{"obj": [kind, rnd.choice(["w1", "pool"])], "input": inp, "depth": depth_of(rnd.choice([0, 1, 2]), kind, rnd),
                      "dstLen": -1, "spare": 0} for kind in ("fast", "hc")])
    # (4a) every destination length across the whole block for sources with long matches (length bytes 255, 255, ...):
    # the end of the destination falls on every token, literal, offset and extension byte
    sweeps = [{"family": "zeros", "len": n, "seed": 0} for n in (300, 600, 5000)] + \
             [{"family": "bytes", "len": 7 + 4000, "seed": 0, "bytes": [1, 2, 3, 4, 5, 6, 7] + [9] * 4000},
              {"family": "periodic", "len": 3000, "seed": rnd.randrange(1 << 20), "p1": 3},
              {"family": "runs", "len": 5000, "seed": rnd.randrange(1 << 20)},
              {"family": "zeros", "len": 70000, "seed": 0}]
    for inp in sweeps if not q else sweeps[:5]:
        top = 64 if inp["len"] < 60000 else 320
        for lo in range(0, top, 40):
            add([{"obj": [kind, rnd.choice(["d1", "pool"])], "input": inp, "depth": 0 if kind == "fast" else rnd.choice([0, 1, 3]), "dstLen": dl, "spare": 0}
                 for dl in range(lo, min(lo + 40, top)) for kind in ("fast", "hc")])
    # (4a') literal runs whose length code ends exactly on a 255 boundary (15 + 255 k): as the final run of a block and before a
    # match, and the destination ending inside the length bytes of a long literal run
    for k in (1, 2, 3, 4):
        for dlt in (-1, 0, 1):
            n = 15 + 255 * k + dlt
            lit = [((i * 131 + 7 * k) ^ (i >> 3)) & 255 for i in range(n)]
            add([{"obj": [kind, rnd.choice(["l1", "pool"])], "input": {"family": "bytes", "len": len(x), "seed": 0, "bytes": x},
                  "depth": 0 if kind == "fast" else rnd.choice([0, 1, 3]), "dstLen": -1, "spare": 0}
                 for x in (lit, lit + [9] * 40 + lit[:20], [9] * 40 + lit) for kind in ("fast", "hc")])
    litrun = [((i * 197 + 11) ^ (i >> 2)) & 255 for i in range(600)] + [5] * 300
    for lo in range(0, 80, 40):
        add([{"obj": [kind, "d2"], "input": {"family": "bytes", "len": len(litrun), "seed": 0, "bytes": litrun}, "depth": 0 if kind == "fast" else 1,
              "dstLen": dl, "spare": 0} for dl in range(lo, lo + 40) for kind in ("fast", "hc")])
    # ... and inside the length bytes of the *final* literal run of a block that has a match before it (the "last literals" code
    # of both compressors is separate from the in-loop literal code)
    for tailn in (270, 600, 15 + 255 * 3):
        tailrun = [9] * 40 + [((i * 197 + 11) ^ (i >> 2)) & 255 for i in range(tailn)]
        add([{"obj": [kind, rnd.choice(["d3", "pool"])], "input": {"family": "bytes", "len": len(tailrun), "seed": 0, "bytes": tailrun},
              "depth": 0 if kind == "fast" else rnd.choice([0, 1, 3]), "dstLen": dl, "spare": 0} for dl in range(0, 24) for kind in ("fast", "hc")])
    # (4a'') the same for the HC compressor, whose search visits only the positions of its skip schedule while it finds
    # nothing (si += 1 + (si - anchor) >> 7): literal runs of exactly 15 + 255 k bytes that it can actually emit before a match
    visited, r_ = [], 0
    while r_ <= (4 << 20):
        visited.append(r_)
        r_ += 1 + (r_ >> 7)
    hcruns = [(p_, visited[i - 1]) for i, p_ in enumerate(visited) if i > 0 and p_ >= 270 and (p_ - 15) % 255 == 0 and p_ + 128 <= (4 << 20)]
    hcruns += [(visited[len(visited) // 3], visited[len(visited) // 3 - 1])]
    for P, Q in hcruns[:2 if q else 4]:
        inp = {"family": "hcvisit", "len": P + 96, "seed": 77, "p1": P, "p2": Q}
        add([{"obj": ["hc", rnd.choice(["v1", "pool"])], "input": inp, "depth": dep, "dstLen": -1, "spare": 0} for dep in (0, 1, 9)] +
            [{"obj": ["fast", "v1"], "input": inp, "depth": 0, "dstLen": -1, "spare": 0}])
    # (4b) incompressible sources beyond 1 MiB with a destination of exactly the code's CompressBlockBound, and every
    # length where the code's bound is below BoundLemma!WorstCaseSize (found on a grid up to 2^30; executed up to 64 MiB)
    for n in ([1 << 20, (3 << 20) + 5] if q else [1 << 20, (3 << 20) + 5, 8 << 20, (16 << 20) + 1, 48 << 20]) + ctx.extra.get("bound_grid_short", [])[:3]:
        inp = {"family": "random", "len": n, "seed": rnd.randrange(1 << 30)}
        add([{"obj": [kind, rnd.choice(["i1", "pool"])], "input": inp, "depth": 0 if kind == "fast" else 1, "dstLen": -1, "spare": 64}
             for kind in ("fast", "hc")])
    # (5) pooled compressors used from four goroutines, keys repeated (C14)
    for _ in range(12 if q else 200):
        ins = [small_input(rnd) for _ in range(3)] + [small_input(rnd, rnd.randrange(100, 161))]
        calls = []
        for _ in range(40):
            kind = rnd.choice(["fast", "hc"])
            calls.append({"obj": [kind, "pool"], "input": rnd.choice(ins), "depth": 0 if kind == "fast" else rnd.choice([0, 1, 3, 512]),
                          "dstLen": -1, "spare": 0})
        add(calls, par=4)
    # ... and with sources beyond 64 KiB (a call then runs long enough to be preempted in the middle of a block; two calls
    # sharing one pooled compressor would see each other's table entries)
    for _ in range(4 if q else 40):
        ins = [{"family": rnd.choice(["text", "mixed", "lowentropy"]), "len": rnd.choice([70000, 140000, 200000, 300000]), "seed": rnd.randrange(1 << 30), "p1": 7}
               for _ in range(3)]
        calls = []
        for _ in range(64):
            kind = rnd.choice(["fast", "fast", "fast", "hc"])
            calls.append({"obj": [kind, "pool"], "input": rnd.choice(ins), "depth": 0 if kind == "fast" else 1, "dstLen": -1, "spare": 0})
        add(calls, par=8)
    return cases


def execute(b, cases, d, tag):
    """Run the cases through cmp-run in parallel shards; returns records grouped by case id."""
    n = min(vlib.NCPU, max(1, len(cases) // 4))
    parts = [cases[i::n] for i in range(n)]
    outs = []

    def work(i):
        cp = os.path.join(d, "%s-cases-%d.ndjson" % (tag, i))
        op = os.path.join(d, "%s-out-%d.ndjson" % (tag, i))
        vlib.write_ndjson(cp, parts[i])
        vlib.harness(b, "cmp-run", "--cases", cp, "--out", op, timeout=3000)
        return op
    with cf.ThreadPoolExecutor(n) as ex:
        outs = list(ex.map(work, range(n)))
    by_case = {}
    for op in outs:
        with open(op) as f:
            for line in f:
                m = line.find('"case":')
                cid = int(line[m + 7:line.find(",", m)])
                by_case.setdefault(cid, []).append(line.rstrip("\n"))
    return by_case


def why(prop, r):
    """Specific description of a rejected record (known-finding key)."""
    big = "field" if r.get("big") else "byte"
    kind = r["kind"]
    if r["panicked"]:
        return "%s:%s:%s:panic" % (prop, kind, big)
    if not r["canary"]:
        return "%s:%s:%s:write-beyond-len(dst)" % (prop, kind, big)
    if r["n"] > r["dstLen"]:
        return "%s:%s:%s:n>len(dst)" % (prop, kind, big)
    if (r["dstLen"] >= r["bound"] or r["dstLen"] >= r.get("realBound", r["bound"])) and (r["n"] <= 0 or r["err"]):
        return "%s:%s:%s:fails-with-bound-sized-dst" % (prop, kind, big)
    if r["n"] == 0 and r["dstLen"] >= r["bound"]:
        return "%s:%s:%s:zero-count-with-bound-sized-dst" % (prop, kind, big)
    if r["n"] > 0 and not r["err"] and not r.get("dec", {}).get("same", False):
        return "%s:%s:%s:block-does-not-decode-to-source" % (prop, kind, big)
    if prop == "C10":
        return "%s:%s:%s:not-strictly-valid" % (prop, kind, big)
    if prop == "C14":
        return "%s:%s:%s:same-key-different-output" % (prop, kind, big)
    return "%s:%s:%s:other" % (prop, kind, big)


def run(ctx, prop):
    q = ctx.tier == "quick"
    ctx.rule = ("gen: all BlockAPI histories of <= 3 calls (4 objects x 3 input slots x 3 depth classes x 2 destination classes, "
                "slot-canonical) concretised with seeded inputs; the Gen_BlockGrid product (length x period x destination length x "
                "compressor); every string over 2 symbols up to length 11 (quick) / 15 (thorough) through the 4 entry points; seeded "
                "families (planted repeats at distance 65534..65537 and 131071..131073, aliasing words 64 KiB apart, multi-byte length "
                "runs, 64 KiB..4 MiB inputs, all depth classes incl. the nine named levels, 65537, 2^31-1); pooled compressors from 4 "
                "goroutines. distinct = distinct (source, kind, depth, destination length) call keys with a non-empty source")
    b = vlib.build_harness()
    d = vlib.scratch(prop.lower())
    r = ctx.mc("Gen_BlockAPI", want_cases=True, timeout=900)
    histories = sorted(r.cases, key=lambda h: json.dumps(h, sort_keys=True))
    if len(histories) < 1000:
        raise vlib.MachineryFault("Gen_BlockAPI exported %d histories" % len(histories))
    ctx.mc("MC_LZ4Block", cfg="MC_LZ4Block_quick", timeout=900)
    if prop in ("C01", "C10"):
        # the 16-bit position table of the fast compressor: exact inside the window, aliases (possibly exactly W back)
        # outside - TLC at W = 8, Apalache with the real constants
        ctx.mc("FastTable", timeout=300, workers=2)
        # the hash / chain tables of the HC compressor: the search never reads a stale slot, whatever the hash function,
        # the skips and the match lengths (every hash function over L + 1 positions and 2 buckets)
        ctx.mc("HCChain", cfg_text="SPECIFICATION Spec\nCONSTANTS\n  W = 4\n  L = %d\n  HB = 2\n  MaxSkip = 2\n  MaxMatch = 6\n"
                                   "INVARIANTS\n  TablesBehind\n  WalkSound\n  WalkComplete\nCHECK_DEADLOCK FALSE\n" % (9 if q else 11),
               timeout=900, workers=4)
        done = 0
        for inv in ("InWindowExact", "AlwaysBehind", "StaleAliases", "DistanceWOccurs"):
            ok, text = vlib.run_apalache("FastTableInd", "Init", inv, 0, next_="Next")
            if ok is None:
                ctx.notes.append("apalache could not be run: FastTableInd skipped")
                break
            if not ok:
                raise vlib.MachineryFault("Apalache refutes FastTableInd!%s (model-level finding):\n%s" % (inv, text))
            done += 1
        ctx.extra["apalache_fast_table_lemmas"] = {"discharged": done, "of": 4, "what": "W = 65536, positions up to 4 MiB"}
    if prop == "C01":
        bound_lemma(ctx, b)
    g = ctx.mc("Gen_BlockGrid", cfg="Gen_BlockGrid_quick" if q else "Gen_BlockGrid", want_cases=True, timeout=1800, heap="8g")
    cases = build_cases(ctx, histories, sorted(g.cases, key=lambda h: json.dumps(h, sort_keys=True)), d)
    by_case = execute(b, cases, d, "run")
    ncalls = sum(len(v) for v in by_case.values())
    ctx.evaluations += ncalls
    ctx.exhaustive = True
    keys = set()
    for v in by_case.values():
        for ln in v:
            m = ln.find('"srcid":"')
            k = (ln[m + 9:m + 29], ln[ln.find('"kind":'):ln.find('"kind":') + 14], ln[ln.find('"depth":'):ln.find('"depth":') + 16],
                 ln[ln.find('"dstLen":'):ln.find('"dstLen":') + 18])
            if '"srcLen":0,' not in ln:
                keys.add(k)
    ctx.distinct += len(keys)
    case_by_id = {c["id"]: c for c in cases}

    # trace in execution order, one "newcase" per case
    tp = os.path.join(d, "trace.ndjson")
    with open(tp, "w") as f:
        for cid in sorted(by_case):
            f.write('{"ev":"newcase","case":%d}\n' % cid)
            f.write("\n".join(by_case[cid]) + "\n")
    acc, rej = vlib.validate_trace(ctx, "BlockAPI_Trace", tp, cfg="BlockAPI_Trace_" + prop, timeout=3000, max_reject=5)
    some = by_case[sorted(by_case)[0]][0]
    ctx.sample({"recorded_call": json.loads(some)})
    big = next((ln for v in by_case.values() for ln in v if '"big":true' in ln and '"seqs"' in ln), None)
    if big:
        rb = json.loads(big)
        rb["seqs"] = rb["seqs"][:5] + ["... %d triples" % rb["nseqs"]]
        ctx.sample({"recorded_call_field_level": rb})
    confirm(ctx, prop, b, d, rej, case_by_id, grouped=False)

    if prop == "C14":
        # second pass: the same key anywhere in the run must have produced the same output
        groups = {}
        for cid in sorted(by_case):
            for ln in by_case[cid]:
                r_ = json.loads(ln)
                k = (r_["srcid"], r_["kind"], r_["depth"], r_["dstLen"])
                slim = {x: r_[x] for x in ("ev", "case", "idx", "kind", "obj", "depth", "srcLen", "dstLen", "bound", "realBound", "n", "err",
                                           "panicked", "canary", "srcok", "srcid", "outid")}
                slim["big"] = True
                groups.setdefault(k, []).append(slim)
        gp = os.path.join(d, "groups.ndjson")
        ng = 0
        with open(gp, "w") as f:
            for i, (k, v) in enumerate(sorted(groups.items())):
                if len(v) < 2:
                    continue
                ng += 1
                f.write('{"ev":"newcase","case":"g%d"}\n' % i)
                for r_ in v:
                    r_["case"] = "g%d" % i
                    f.write(json.dumps(r_, separators=(",", ":")) + "\n")
        ctx.extra["determinism_groups"] = ng
        if ng:
            acc, rej = vlib.validate_trace(ctx, "BlockAPI_Trace", gp, cfg="BlockAPI_Trace_C14", timeout=3000, max_reject=5)
            for rj in rej:
                rec = json.loads(rj["line"])
                # re-execute the cases that contributed to this group
                ids = sorted({json.loads(x)["idx"] for x in rj["case_lines"][1:]})
                ctx.violation(why("C14", rec), "the same (source, kind, depth, len(dst)) produced different blocks",
                              {"kind": "blockcmp-group", "property": "C14", "records": [json.loads(x) for x in rj["case_lines"][1:]][:10],
                               "idx": ids[:10]})
    ctx.trusted += ["ref.DecodeBlock (sequence triples of large blocks; its output on small blocks is re-derived by TLC in "
                    "the LZ4Block trace checks)", "sensor: canary arena with spare capacity behind len(dst)"]
    ctx.assumptions += ["sources up to 4 MiB; byte-level oracle (TLC decodes the block) for sources <= 160 bytes, field level above"]


def confirm(ctx, prop, b, d, rej, case_by_id, grouped):
    for rj in rej[:10]:
        rec = json.loads(rj["line"])
        key = why(prop, rec)
        if any(v[0] == key for v in ctx.violations):
            continue
        case = case_by_id[rec["case"]]
        rej2 = None
        for attempt in range(20 if case.get("par") else 1):
            again = execute(b, [case], d, "again")
            tp = os.path.join(d, "again.ndjson")
            with open(tp, "w") as f:
                f.write('{"ev":"newcase","case":%d}\n' % case["id"])
                f.write("\n".join(again[case["id"]]) + "\n")
            sub = vlib.Ctx(ctx.prop, ctx.tier, ctx.seed)
            acc, rej2 = vlib.validate_trace(sub, "BlockAPI_Trace", tp, cfg="BlockAPI_Trace_" + prop, shards=1)
            if rej2:
                break
        if not rej2:
            ctx.unreproducible("%s: %s" % (key, rj["line"]))
            continue
        rec2 = json.loads(rej2[0]["line"])
        for k in ("src", "block", "seqs"):
            if k in rec2 and len(rec2[k]) > 400:
                rec2[k] = rec2[k][:400]
        ctx.violation(why(prop, rec2), "compress call violates %s: %s" % (prop, why(prop, rec2)),
                      {"kind": "blockcmp", "property": prop, "case": case, "rejected_record": rec2, "tlc": rej2[0]["tlc"]})


def replay(ctx, prop, path):
    rp = json.load(open(path))
    b = vlib.build_harness()
    d = vlib.scratch("rep")
    if rp["kind"] != "blockcmp":
        print("replay of grouped determinism findings: re-run the check")
        return 2
    case = rp["case"]
    again = execute(b, [case], d, "again")
    tp = os.path.join(d, "again.ndjson")
    with open(tp, "w") as f:
        f.write('{"ev":"newcase","case":%d}\n' % case["id"])
        f.write("\n".join(again[case["id"]]) + "\n")
    acc, rej = vlib.validate_trace(ctx, "BlockAPI_Trace", tp, cfg="BlockAPI_Trace_" + prop, shards=1)
    if rej:
        print("rejected record:", rej[0]["line"][:500])
        print("VIOLATION property=%s replay=%s" % (prop, path))
        return 1
    print("replay: deviation not observed")
    return 0


def selftest(ctx, prop):
    b = vlib.build_harness()
    d = vlib.scratch("st")
    case = {"id": 1, "calls": [{"obj": ["fast", "f1"], "input": {"family": "text", "len": 90, "seed": 3}, "depth": 0, "dstLen": -1, "spare": 8},
                               {"obj": ["fast", "f1"], "input": {"family": "text", "len": 90, "seed": 3}, "depth": 0, "dstLen": -1, "spare": 8}]}
    recs = [json.loads(x) for x in execute(b, [case], d, "st")[1]]
    bad = json.loads(json.dumps(recs))
    if prop == "C01":
        bad[1]["block"][-1] ^= 1
    elif prop == "C10":
        # make the last literal run too short: move 3 literals... simplest: claim a longer source
        bad[1]["block"] = bad[1]["block"][:-1]
    elif prop == "C11":
        bad[1]["canary"] = False
    else:
        bad[1]["outid"] = "different"
    for name, rs, want in (("good", recs, 0), ("bad", bad, 1)):
        tp = os.path.join(d, name + ".ndjson")
        vlib.write_ndjson(tp, [{"ev": "newcase", "case": 1}] + rs)
        acc, rej = vlib.validate_trace(ctx, "BlockAPI_Trace", tp, cfg="BlockAPI_Trace_" + prop, shards=1)
        if len(rej) != want:
            raise vlib.MachineryFault("selftest %s: %s trace gave %d rejections" % (prop, name, len(rej)))
    print("selftest %s ok" % prop)
    return 0
