"""Frame-level helpers shared by C02, C05, C06, C07, C09, C15, C16, C17: option vectors, input
classes, concretisation of TLC's Writer histories, sharded execution of frame-write / frame-read,
flattening of recorded runs into Writer_Trace / Reader_Trace / LZ4Frame_Trace events."""
import concurrent.futures as cf
import json
import os

import vlib

BLOCK = {4: 65536, 5: 262144, 6: 1 << 20, 7: 4 << 20}
LEGACY_BLOCK = 8 << 20
XXH0 = [0x27, 0x11, 0x4b, 0x23]          # XXH32(27 11 4b 23) = 0


def block_of(o):
    return LEGACY_BLOCK if o.get("legacy") else BLOCK[o["code"]]


def opt_vectors(rnd, n, codes=(4, 5, 6, 7), legacy_share=0.1, conc=(1, 2, 4, 0)):
    """n option vectors: every value of every option occurs, pairs are spread by a seeded shuffle."""
    out = []
    i = 0
    while len(out) < n:
        o = {"code": codes[i % len(codes)], "bcs": (i // 2) % 2 == 1, "ccs": (i // 3) % 2 == 0,
             "level": [0, 1, 9, 3, 0, 5, 2, 0, 7, 4, 6, 8][i % 12], "conc": conc[(i // 5) % len(conc)],
             "legacy": False, "handler": i % 7 == 0}
        if rnd.random() < 0.3:
            o["size"] = rnd.choice([-1, -1, -1, 1, 123, 1 << 32, (1 << 64) - 1])    # -1: the true input length
        if rnd.random() < legacy_share:  # legacy blocks are 8 MiB: costly, keep their share small
            o["legacy"] = True
        out.append(o)
        i += 1 + rnd.randrange(3)
    return out


def g(r, B):
    """residue class of an abstract length (MC_Writer uses B = 4) -> real offset within a block"""
    return {0: 0, 1: 1, 2: B // 2 + 5, 3: B - 1}[r]


def concretise(calls, B):
    """TLC history with B = 4 -> real call list and total input length"""
    out, total = [], 0
    for c in calls:
        if c["op"] in ("write", "readfrom"):
            n = (c["n"] // 4) * B + g(c["n"] % 4, B)
            out.append({"op": c["op"], "n": n})
            total += n
        else:
            out.append({"op": c["op"]})
    return out, total


def input_for(rnd, n, family=None):
    fam = family or rnd.choice(["text", "random", "zeros", "mixed", "lowentropy", "periodic"])
    return {"family": fam, "len": n, "seed": rnd.randrange(1 << 30), "p1": rnd.randrange(1, 9)}


def shard_run(binary, sub, cases, d, tag, extra=(), nshards=None, timeout=3000):
    """Run a harness sub-command over `cases` in parallel shards; returns the records in case order."""
    if not cases:
        return {}, []
    n = min(nshards or vlib.NCPU, len(cases))
    parts = [cases[i::n] for i in range(n)]

    def work(i):
        """run one shard; a case whose call does not return ends the process (summary hung=1): record it
        and continue with the cases after it in a fresh process"""
        todo = list(parts[i])
        op_all = os.path.join(d, "%s-out-%d.ndjson" % (tag, i))
        open(op_all, "w").close()
        rounds = 0
        fault = None
        while todo:
            cp = os.path.join(d, "%s-in-%d-%d.ndjson" % (tag, i, rounds))
            op = os.path.join(d, "%s-out-%d-%d.ndjson" % (tag, i, rounds))
            vlib.write_ndjson(cp, todo)
            s = vlib.harness(binary, sub, "--cases", cp, "--out", op, *extra, timeout=timeout, check=False)
            if os.path.exists(op):
                with open(op) as fi, open(op_all, "a") as fo:
                    fo.write(fi.read())
            if "rc" in s:
                # the process died: everything it wrote before is kept; the case after the last record is
                # the one that killed it - skip it (it stays without a record) and go on
                done = sum(1 for _ in open(op)) if os.path.exists(op) else 0
                fault = s
                todo = todo[done + 1:]
                rounds += 1
                if rounds > 20:
                    return op_all, fault
                continue
            if s.get("hung"):
                done = s["cases"]
                todo = todo[done:]
                rounds += 1
                if rounds > 20:
                    return op_all, {"rc": -1, "stderr": "more than 20 hanging cases in one shard", "stdout": ""}
                continue
            break
        return op_all, fault
    recs, faults = {}, []
    with cf.ThreadPoolExecutor(n) as ex:
        for op, fault in ex.map(work, range(n)):
            if os.path.exists(op):
                for r in vlib.read_ndjson(op):
                    recs[r["case"]] = r
            if fault:
                faults.append(fault)
    return recs, faults


# ---------------------------------------------------------------------------------- flattening

def hdr_len(o):
    if o["legacy"]:
        return 4
    return 15 if o["size"] else 7


def descriptor_of(o):
    """the FLG and BD bytes and the size field that the options imply"""
    flg = 64 + 32 + (16 if o["bcs"] else 0) + (8 if o["size"] else 0) + (4 if o["ccs"] else 0)
    return flg, 16 * o["code"], o["size"]


def writer_events(w):
    """wrun record -> Writer_Trace events"""
    o = w["opts"]
    flg, bd, csize = descriptor_of(o)
    ev = [{"ev": "wnew", "case": w["case"], "conc": 1 if o["conc"] == 1 else 2, "bcs": o["bcs"] and not o["legacy"], "hdr": hdr_len(o),
           "flg": flg, "bd": bd, "csize": csize}]
    if w.get("hung"):
        ev.append({"ev": "wend", "case": w["case"], "seg": 1, "status": "hung", "same": False, "blocks": [], "contentLen": 0,
                   "consumed": 0, "segLen": 0, "flg": 0, "bd": 0, "csize": [], "clean": False, "sinkIsPrefix": True,
                   "injected": False, "closecalled": False, "single": False, "handler": False, "hcalls": 0, "hsum": 0, "storedsum": 0,
                   "expflg": 0, "expbd": 0, "expcsize": [], "reconf": False})
        return ev
    prev_calls, prev_sink, life_base = 0, 0, 0
    lives = [{"injected": False, "closecalled": False}]     # per life of the Writer (a Reset starts a new one)
    for i, c in enumerate(w["calls"]):
        dcalls, dsink = c["calls"] - prev_calls, c["sink"] - prev_sink
        prev_calls, prev_sink = c["calls"], c["sink"]
        lifefails = c.get("fails", 0) - life_base      # sink calls that failed since the last Reset (the call included)
        if c["op"] == "reset":
            life_base = c.get("fails", 0)
            lives.append({"injected": False, "closecalled": False})
        else:
            lives[-1]["injected"] = lives[-1]["injected"] or lifefails > 0
            lives[-1]["closecalled"] = lives[-1]["closecalled"] or c["op"] == "close"
        if i == 0 and c["op"] == "apply":
            continue          # NewWriter + Apply(options): before the first write, no sink access
        ev.append({"ev": "wcall", "case": w["case"], "op": c["op"], "n": c["n"], "ret": c["ret"], "err": c["err"],
                   "dcalls": dcalls, "dsink": dsink, "dec": c["dec"], "decsame": c["decsame"],
                   "st": (c.get("st") or "").replace("State", ""), "lifefails": lifefails})
    for k, f in enumerate(w["frames"]):
        ev.append({"ev": "wend", "case": w["case"], "seg": k + 1, "status": f["status"], "same": f["same"],
                   "blocks": [b["dec"] for b in f["blocks"]], "contentLen": f["contentLen"], "consumed": f["consumed"],
                   "segLen": f["segLen"], "flg": f["flg"], "bd": f["bd"], "csize": f["csize"], "clean": w["panicked"] == "",
                   "sinkIsPrefix": w.get("sinkIsPrefix", True),
                   # without per-call failure counts (older records): the flags of the whole run
                   "injected": lives[min(k, len(lives) - 1)]["injected"] if any("fails" in c for c in w["calls"]) else w.get("injected", False),
                   "closecalled": lives[min(k, len(lives) - 1)]["closecalled"] if len(lives) > 1 else any(c["op"] == "close" for c in w["calls"]),
                   "expflg": (w.get("expdesc") or [[flg, bd, csize]] * (k + 1))[k][0], "expbd": (w.get("expdesc") or [[flg, bd, csize]] * (k + 1))[k][1],
                   "expcsize": (w.get("expdesc") or [[flg, bd, csize]] * (k + 1))[k][2], "reconf": bool(w.get("expdesc")),
                   "single": len(w["frames"]) == 1, "handler": bool(o.get("handler")), "hcalls": len(w.get("handler") or []),
                   "hsum": sum(w.get("handler") or []), "storedsum": sum(b["size"] for b in f["blocks"])})
    return ev


def validate_writer_runs(ctx, wruns, d, max_reject=4):
    """Group recorded Writer runs by (block size, legacy) and validate each group with Writer_Trace."""
    groups = {}
    for w in wruns:
        groups.setdefault((w["block"], w["opts"]["legacy"]), []).append(w)
    rejected = []
    for (B, legacy), ws in sorted(groups.items()):
        tp = os.path.join(d, "wtrace-%d-%s.ndjson" % (B, legacy))
        with open(tp, "w") as f:
            for w in ws:
                for e in writer_events(w):
                    f.write(json.dumps(e, separators=(",", ":")) + "\n")
        cfg = ("SPECIFICATION TraceSpec\nCONSTANTS\n  B = %d\n  Legacy = %s\n  TraceFile = \"trace.ndjson\"\n"
               "INVARIANTS\n  Conservation\n  ClosedFrameComplete\n  BlocksAreFull\n  PendingBounded\n  AtMostOneHeader\n  HandlerAccounting\n"
               "POSTCONDITION TraceAccepted\nCHECK_DEADLOCK FALSE\n" % (B, "TRUE" if legacy else "FALSE"))
        acc, rej = vlib.validate_trace(ctx, "Writer_Trace", tp, cfg="Writer_Trace", cfg_text=cfg, timeout=1800,
                                       max_reject=max_reject)
        rejected += rej
    return rejected


def emit_events(w, noflush=True):
    """wrun record with exactly one closed frame -> LZ4Frame_Trace emit / emitbig event"""
    o = w["opts"]
    opts = {"code": o["code"], "bcs": o["bcs"], "ccs": o["ccs"], "size": o["size"], "legacy": o["legacy"]}
    if w["small"]:
        return {"ev": "emit", "case": w["case"], "bytes": w["bytes"], "input": w["input"], "opts": opts}
    f = w["frames"][0]
    return {"ev": "emitbig", "case": w["case"], "ref": f, "same": f["same"], "inputLen": w["inputLen"], "opts": opts,
            "noflush": noflush}


def reader_events(r, total, linked=False):
    """read record of a VALID frame -> Reader_Trace events"""
    ev = [{"ev": "rnew", "case": r["case"], "total": total, "conc": r["cfg"]["conc"], "linked": linked,
           "declared": r.get("declared", [0, 0, 0, 0])}]
    if "log" in r:
        for c in r["log"]:
            ev.append(dict(c, ev="rcall", case=r["case"], st=(c.get("st") or "").replace("State", "")))
    else:
        ev.append({"ev": "rall", "case": r["case"], "n": r["deliveredLen"], "err": "eof" if r["outcome"] == "clean" else r["err"]})
    ev.append({"ev": "rend", "case": r["case"], "same": r.get("sameAsInput", False),
               "prefixok": r.get("prefixOfContent", True), "clean": r["outcome"] in ("clean", "error")})
    return ev
