"""Gate replay (spec -> code) for the pipeline models: behaviours of PipelineW / PipelineR are taken from TLC's state
graph (-dump dot,actionlabels), projected onto the hook sites, and forced onto the real goroutines by the blocking
hook (a goroutine arriving at a gated site waits until the schedule names its (site, channel)).  The run must follow the
schedule to its end, its recorded events must be accepted by the pipeline trace specification, and its sensors must be
silent.  A run that cannot follow a model schedule is a divergence between model and code: exit 2, not a violation."""
import json
import os
import random
import re

import vlib
from checks import framelib as fl

B = 65536


def parse_dot(text):
    nodes, edges = {}, {}
    for m in re.finditer(r'^(-?\d+) \[label="((?:[^"\\]|\\.)*)"', text, re.M):
        nodes[m.group(1)] = m.group(2)
    for m in re.finditer(r'^(-?\d+) -> (-?\d+) \[label="(\w+)(?:\((\d+)\))?"', text, re.M):
        edges.setdefault(m.group(1), []).append((m.group(2), m.group(3)))   # the parameter, if any, is re-derived from the states
    init = re.search(r'^(-?\d+) \[label=.*style = filled\]', text, re.M).group(1)
    return nodes, edges, init


def field(label, name):
    m = re.search(r'/\\\\ %s = (.*?)(?:\\n|$)' % name, label)
    return m.group(1) if m else None


def tup(s):
    return [x.strip().strip('\\"') for x in s.strip("<>").split(",")] if s and s != "<<>>" else []


W_SITES = {"PSubmit": "p.queue", "WOffer": "w.offer", "ODequeue": "o.dequeue", "OTake": "o.take", "OWrite": "o.write", "OClose": "o.close",
           "WClosed": "w.closed", "WRelease": "w.released", "PCloseQueue": "p.closeq", "PCloseSend": "p.closesend", "PCloseWait": "p.closed"}
R_SITES = {"REnqueue": "r.enqueue", "DOffer": "d.offer", "CDequeue": "c.dequeue", "CTake": "c.take", "CDeliver": "c.deliver", "CClose": "c.close",
           "URecv": "u.recv", "RFinQueue": "r.finq", "RFinSend": "r.finsend", "RFinWait": "r.finwait", "RFinClose": "r.finclose"}


def event_of(kind, a, b, act, n):
    """hook event (site, channel) of the model step a --act--> b, or None for unlogged steps"""
    if kind == "W":
        if act not in W_SITES:
            return None
        if act in ("WOffer", "WClosed", "WRelease"):
            wa, wb = tup(field(a, "wpc")), tup(field(b, "wpc"))
            ch = next(i + 1 for i in range(len(wa)) if wa[i] != wb[i])
        elif act == "PSubmit":
            ch = int(field(a, "pnext"))
        elif act == "ODequeue":
            ch = int(field(b, "ocur"))
        elif act in ("OTake", "OWrite", "OClose"):
            ch = int(field(a, "ocur"))
        else:
            ch = n + 1
        # o.write is logged only while no write has failed
        if act == "OWrite" and field(a, "err") == "TRUE":
            return None
        return (W_SITES[act], ch)
    if act == "DDecode":
        da, db = tup(field(a, "dpc")), tup(field(b, "dpc"))
        ch = next(i + 1 for i in range(len(da)) if da[i] != db[i])
        return ("d.fail", ch) if db[ch - 1] == "done" else None
    if act not in R_SITES:
        return None
    if act == "DOffer":
        da, db = tup(field(a, "dpc")), tup(field(b, "dpc"))
        ch = next(i + 1 for i in range(len(da)) if da[i] != db[i])
    elif act == "REnqueue":
        ch = int(field(a, "rnext"))
    elif act == "CDequeue":
        ch = int(field(b, "ccur"))
    elif act in ("CTake", "CDeliver", "CClose"):
        ch = int(field(a, "ccur"))
    elif act == "URecv":
        ch = 0
    else:
        ch = n + 1
    return (R_SITES[act], ch)


def walks(nodes, edges, init, rnd, count):
    """random maximal walks, preferring edges not walked yet (every edge of the graph gets covered when count allows)"""
    seen, out = set(), []
    for _ in range(count):
        cur, path = init, []
        for _step in range(2000):
            nxt = [e for e in edges.get(cur, []) if e[0] != cur]
            if not nxt:
                break
            fresh = [e for e in nxt if (cur, e[0]) not in seen]
            e = rnd.choice(fresh or nxt)
            seen.add((cur, e[0]))
            path.append((cur, e[0], e[1]))
            cur = e[0]
        out.append(path)
    total = sum(len(v) for v in edges.values())
    return out, len(seen), total


def run(ctx, b, d, rnd):
    q = ctx.tier == "quick"
    cases = []
    cover = {}
    for kind, mod, n, consts in (("W", "PipelineW", 2, "  N = 2\n  Num = 2\n  FailAt = 0\n"), ("W", "PipelineW", 3, "  N = 3\n  Num = 2\n  FailAt = 2\n"),
                                 ("R", "PipelineR", 2, "  N = 2\n  Num = 2\n  DecodeFailAt = 0\n  SourceFailAt = 0\n  EmptyBlocks = {}\n"),
                                 ("R", "PipelineR", 3, "  N = 3\n  Num = 2\n  DecodeFailAt = 0\n  SourceFailAt = 0\n  EmptyBlocks = {}\n")):
        # (Reader behaviours with a decoding error are not replayed: when the reader goroutine looks at the error latch
        # is not a hook site, so the code could not be made to follow every such schedule; they are covered by the
        # perturbed runs + trace validation.)
        r = vlib.run_tlc(mod, cfg_text="SPECIFICATION Spec\nCONSTANTS\n" + consts, workers=4, timeout=600,
                         extra=["-dump", "dot,actionlabels", "g.dot"], read_back=["g.dot"])
        ctx.add_tlc(r, "graph:" + mod)
        if not r.ok or "g.dot" not in r.files:
            raise vlib.MachineryFault("could not dump the state graph of %s: %s" % (mod, r.error))
        nodes, edges, init = parse_dot(r.files["g.dot"])
        ws, nseen, ntotal = walks(nodes, edges, init, rnd, 40 if q else 600)
        cover["%s N=%d" % (mod, n)] = {"edges_walked": nseen, "edges": ntotal, "behaviours": len(ws)}
        for path in ws:
            sched = [e for e in (event_of(kind, nodes[a], nodes[bb], act, n) for a, bb, act in path) if e]
            c = {"id": len(cases) + 1, "kind": "writer" if kind == "W" else "reader", "seed": 1, "perturb": 0, "poison": True,
                 "sched": [{"site": s, "ch": ch} for s, ch in sched], "model": "%s N=%d" % (mod, n),
                 "input": {"family": "text", "len": n * B, "seed": 3}, "cfg": {"conc": 2, "mode": "read", "bufs": [B]},
                 "opts": {"code": 4, "bcs": kind == "R", "ccs": False, "level": 0, "conc": 2, "legacy": False, "handler": False}}
            if kind == "W":
                c["calls"] = [{"op": "write", "n": n * B}, {"op": "close"}]
                if "FailAt = 2" in consts:
                    c["failAt"] = 1 + 2 * 1 + 1          # header, block 1 (size, payload), block 2's size word
            elif "DecodeFailAt = 2" in consts:
                c["ops"] = [[2, 7 + 4 + 200 + 0, 3]]     # a payload byte of ... resolved below
                c["flipblock"] = 2
            cases.append(c)
    # decode failure at block 2: flip a byte inside block 2's payload (block checksums are on, so it is an error)
    flip = [c for c in cases if c.get("flipblock")]
    if flip:
        probe = {"id": 1, "input": flip[0]["input"], "opts": dict(flip[0]["opts"], conc=1), "calls": [{"op": "write", "n": flip[0]["input"]["len"]}, {"op": "close"}]}
        pr, _ = fl.shard_run(b, "frame-write", [probe], d, "gprobe", nshards=1)
        blocks = pr[1]["frames"][0]["blocks"]
        off = 7 + (4 + blocks[0]["size"] + 4) + 4 + 10
        for c in flip:
            c["ops"] = [[2, off, 3]]
    from checks import c08
    env = {"GORACE": "halt_on_error=1 exitcode=66"}
    recs, faults = c08.shard_run_env(b, cases, d, "gate", env)
    ctx.evaluations += len(cases)
    ctx.extra["gate_replay"] = cover
    tw, tr = os.path.join(d, "gw.ndjson"), os.path.join(d, "gr.ndjson")
    diverged, missing = [], []
    with open(tw, "w") as fw, open(tr, "w") as fr:
        for c in cases:
            r = recs.get(c["id"])
            if r is None:
                missing.append(c)
                continue
            if not r.get("followed"):
                diverged.append((c, r))
                continue
            got = [(e[1], e[2]) for e in (r["events"] or []) if e[1] in {x["site"] for x in c["sched"]}]
            want = [(x["site"], x["ch"]) for x in c["sched"]]
            if got != want:
                diverged.append((c, r))
                continue
            f = fw if c["kind"] == "writer" else fr
            for e in c08.to_trace(c, r):
                f.write(json.dumps(e, separators=(",", ":")) + "\n")
    ctx.extra["gate_replay"]["followed"] = len(cases) - len(diverged) - len(missing)
    ctx.extra["gate_replay"]["diverged"] = len(diverged)
    if missing:
        for c in missing[:5]:
            c08.confirm_death(ctx, b, d, c, env)
    if diverged:
        c, r = diverged[0]
        ctx.unreproducible("gate replay: the code did not follow %d of %d model schedules (first: %s, stopped at position %s of %d)"
                           % (len(diverged), len(cases), c["model"], r.get("schedpos"), len(c["sched"])))
    rej = []
    for mod, path in (("PipelineW_Trace", tw), ("PipelineR_Trace", tr)):
        if os.path.getsize(path):
            acc, rj = vlib.validate_trace(ctx, mod, path, timeout=1800, max_reject=3)
            rej += [(mod, x) for x in rj]
    by_id = {c["id"]: c for c in cases}
    for mod, rj in rej:
        rec = json.loads(rj["line"])
        c = by_id[rec["case"]]
        key = "C08:gate:" + c08.key_of(c, recs[c["id"]], rec)
        if any(v[0] == key for v in ctx.violations):
            continue
        rr, _ = c08.shard_run_env(b, [c], d, "gate-again", env, nshards=1)
        if c["id"] in rr:
            t2 = os.path.join(d, "gate-again.ndjson")
            vlib.write_ndjson(t2, c08.to_trace(c, rr[c["id"]]))
            sub = vlib.Ctx(ctx.prop, ctx.tier, ctx.seed)
            a2, rej2 = vlib.validate_trace(sub, mod, t2, shards=1)
            if rej2:
                obs = {k: v for k, v in rr[c["id"]].items() if k != "events"}
                ctx.violation(key, "a TLC schedule replayed into the code ends in a state the model does not allow: %s" % key,
                              {"kind": "c08", "case": c, "observed": obs, "rejected_event": json.loads(rej2[0]["line"])})
                continue
        ctx.unreproducible("gate replay rejection not reproduced: %s" % key)
