package main

import (
	"crypto/sha1"
	"encoding/hex"
	"math/rand"
	"os"
)

// inputSpec describes a (possibly large) input without shipping its bytes through JSON.
type inputSpec struct {
	Family string `json:"family"`
	Len    int    `json:"len"`
	Seed   int64  `json:"seed"`
	P1     int    `json:"p1,omitempty"` // period / distance
	P2     int    `json:"p2,omitempty"` // match length
	Bytes  []int  `json:"bytes,omitempty"`
	Path   string `json:"path,omitempty"` // family "file": the bytes of this file
}

const words = "the of and a to in is you that it he was for on are as with his they I at be this have from or one had by word but not what all were we when your can said there use an each which she do how their if will up other about out many then them these so some her would make like him into time has look two more write go see number no way could people my than first water been call who oil its now find long down day did get come made may part "

func (s inputSpec) build() []byte {
	if s.Bytes != nil {
		return bytesOf(s.Bytes)
	}
	if s.Family == "file" {
		b, err := os.ReadFile(s.Path)
		if err != nil {
			panic(err)
		}
		return b
	}
	r := rand.New(rand.NewSource(s.Seed*7919 + int64(s.Len)))
	b := make([]byte, s.Len)
	switch s.Family {
	case "random":
		r.Read(b)
	case "zeros":
	case "lowentropy":
		for i := range b {
			b[i] = byte(r.Intn(3))
		}
	case "periodic":
		p := s.P1
		if p <= 0 {
			p = 1
		}
		for i := range b {
			if i < p {
				b[i] = byte(r.Intn(256))
			} else {
				b[i] = b[i-p]
			}
		}
	case "text":
		for i := 0; i < len(b); {
			k := r.Intn(len(words) - 12)
			i += copy(b[i:], words[k:k+3+r.Intn(9)])
		}
	case "mixed": // alternating compressible and incompressible stretches
		for i := 0; i < len(b); {
			n := 1 + r.Intn(3000)
			if i+n > len(b) {
				n = len(b) - i
			}
			if r.Intn(2) == 0 {
				r.Read(b[i : i+n])
			} else {
				c := byte(r.Intn(256))
				for j := i; j < i+n; j++ {
					b[j] = c + byte((j-i)%(1+s.P1%7))
				}
			}
			i += n
		}
	case "hcvisit":
		// incompressible bytes with one 32-byte repeat: the 32 bytes at P1 are those at P2 (P2 < P1, less than
		// 64 KiB apart).  P1 and P2 are consecutive positions of the HC search's skip schedule
		// (si += 1 + (si-anchor)>>7), so the compressor finds the match after a literal run of exactly P1 bytes.
		r.Read(b)
		if s.P1+32 <= len(b) && s.P2 >= 0 && s.P2 < s.P1 {
			copy(b[s.P1:s.P1+32], b[s.P2:s.P2+32])
		}
	case "plant":
		// compressible background (so that the compressors' adaptive skipping stays small) with
		// unique random segments of P2 bytes repeated exactly P1 bytes later; Seed picks the
		// background.  Several plants per input when it is long enough.
		d, m := s.P1, s.P2
		switch s.Seed % 3 {
		case 0: // zeros
		case 1:
			for i := 0; i < len(b); {
				k := r.Intn(len(words) - 12)
				i += copy(b[i:], words[k:k+3+r.Intn(9)])
			}
		default:
			for i := range b {
				b[i] = byte('a' + r.Intn(2))
			}
		}
		seg := make([]byte, m)
		for at := 16 + r.Intn(64); d > 0 && at+d+m+16 <= len(b); at += d + m + 32 + r.Intn(4096) {
			for i := range seg {
				seg[i] = byte(128 + r.Intn(128)) // never occurs in any background
			}
			copy(b[at:], seg)
			copy(b[at+d:], seg)
		}
	case "alias":
		// the same 8-byte word at positions k, k+65536 and k+131072, different bytes after it:
		// 16-bit table positions alias across 64 KiB blocks
		r.Read(b)
		for k := 100; k+131072+16 < len(b); k += 20011 {
			copy(b[k+65536:k+65536+8], b[k:k+8])
			copy(b[k+131072:k+131072+8], b[k:k+8])
		}
	case "blockmix":
		// per block of P1 bytes one of: incompressible, text, zeros - so that consecutive blocks of a
		// frame are stored differently (raw / compressed)
		bs := s.P1
		if bs <= 0 {
			bs = 65536
		}
		for i := 0; i < len(b); i += bs {
			end := i + bs
			if end > len(b) {
				end = len(b)
			}
			switch (int(s.Seed) + i/bs) % 3 {
			case 0:
				r.Read(b[i:end])
			case 1:
				for j := i; j < end; {
					k := r.Intn(len(words) - 12)
					j += copy(b[j:end], words[k:k+3+r.Intn(9)])
				}
			}
		}
	case "runs":
		// long runs needing multi-byte match and literal length codes
		for i := 0; i < len(b); {
			n := 15 + 255*r.Intn(3) + r.Intn(3) - 1
			if i+n > len(b) {
				n = len(b) - i
			}
			if r.Intn(2) == 0 {
				r.Read(b[i : i+n])
			} else {
				c := byte(r.Intn(256))
				for j := i; j < i+n; j++ {
					b[j] = c
				}
			}
			i += n
		}
	default:
		panic("unknown input family " + s.Family)
	}
	return b
}

func shaID(b []byte) string {
	h := sha1.Sum(b)
	return hex.EncodeToString(h[:10])
}
