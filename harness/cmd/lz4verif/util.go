package main

import (
	"bufio"
	"encoding/json"
	"fmt"
	"math/rand"
	"os"
)

// U32 is a 32-bit word written as the two 16-bit limbs [hi, lo] that Bits32.tla uses.
type U32 [2]int

func u32(x uint32) U32    { return U32{int(x >> 16), int(x & 0xFFFF)} }
func (u U32) val() uint32 { return uint32(u[0])<<16 | uint32(u[1]) }
func u64limbs(x uint64) [4]int {
	return [4]int{int(x & 0xFFFF), int(x >> 16 & 0xFFFF), int(x >> 32 & 0xFFFF), int(x >> 48 & 0xFFFF)}
}
func limbs64(l [4]int) uint64 {
	return uint64(l[0]) | uint64(l[1])<<16 | uint64(l[2])<<32 | uint64(l[3])<<48
}

// ints turns bytes into a JSON-friendly []int (encoding/json would base64 a []byte).
func ints(b []byte) []int {
	r := make([]int, len(b))
	for i, x := range b {
		r[i] = int(x)
	}
	return r
}

func bytesOf(a []int) []byte {
	r := make([]byte, len(a))
	for i, x := range a {
		r[i] = byte(x)
	}
	return r
}

// ndjson writer
type ndw struct {
	f     *os.File
	w     *bufio.Writer
	n     int
	flush bool // flush after every record (the process may die on the next case)
}

func newNDW(path string) (*ndw, error) {
	f, err := os.Create(path)
	if err != nil {
		return nil, err
	}
	return &ndw{f: f, w: bufio.NewWriterSize(f, 1<<20)}, nil
}

func (w *ndw) put(v interface{}) {
	b, err := json.Marshal(v)
	if err != nil {
		panic(err)
	}
	w.w.Write(b)
	w.w.WriteByte('\n')
	w.n++
	if w.flush {
		w.w.Flush()
	}
}

func (w *ndw) close() error {
	if err := w.w.Flush(); err != nil {
		return err
	}
	return w.f.Close()
}

// readND calls fn for every line of an ndjson file.
func readND(path string, fn func(line []byte) error) error {
	f, err := os.Open(path)
	if err != nil {
		return err
	}
	defer f.Close()
	sc := bufio.NewScanner(f)
	sc.Buffer(make([]byte, 1<<20), 1<<28)
	for sc.Scan() {
		if len(sc.Bytes()) == 0 {
			continue
		}
		if err := fn(sc.Bytes()); err != nil {
			return err
		}
	}
	return sc.Err()
}

func writeJSON(path string, v interface{}) error {
	b, err := json.MarshalIndent(v, "", " ")
	if err != nil {
		return err
	}
	return os.WriteFile(path, b, 0o644)
}

func printJSON(v interface{}) {
	b, _ := json.Marshal(v)
	fmt.Println(string(b))
}

func rng(seed int64, stream string) *rand.Rand {
	h := int64(1469598103934665603)
	for _, c := range stream {
		h = (h ^ int64(c)) * 1099511628211
	}
	return rand.New(rand.NewSource(seed*1000003 ^ h))
}

// randBytes gives bytes of a seeded flavour: uniform, low entropy, periodic or text-like.
func randBytes(r *rand.Rand, n int) []byte {
	b := make([]byte, n)
	switch r.Intn(4) {
	case 0:
		r.Read(b)
	case 1:
		for i := range b {
			b[i] = byte(r.Intn(3))
		}
	case 2:
		p := 1 + r.Intn(9)
		for i := range b {
			if i < p {
				b[i] = byte(r.Intn(256))
			} else {
				b[i] = b[i-p]
			}
		}
	default:
		const al = "etaoin shrdlu,.\n"
		for i := range b {
			b[i] = al[r.Intn(len(al))]
		}
	}
	return b
}
