package main

import (
	"bytes"
	"encoding/json"
	"flag"
	"fmt"
	"os"
	"runtime/debug"
	"time"

	lz4 "github.com/pierrec/lz4/v4"

	"lz4verif/ref"
)

func init() {
	register("frame-write", frameWrite)
	register("frame-read", frameRead)
	register("frame-refparse", frameRefParse)
}

// frameRefParse logs the reference parser's result on small byte strings, strict and lenient,
// for TLC to recompute (ref-conformance of ref.ParseFrame against LZ4Frame.tla: Parse).
func frameRefParse(args []string) error {
	fs := flag.NewFlagSet("frame-refparse", flag.ExitOnError)
	in := fs.String("cases", "", "")
	out := fs.String("out", "", "")
	fs.Parse(args)
	w, err := newNDW(*out)
	if err != nil {
		return err
	}
	n := 0
	err = readND(*in, func(line []byte) error {
		var c struct {
			ID    int   `json:"id"`
			Bytes []int `json:"bytes"`
		}
		if err := json.Unmarshal(line, &c); err != nil {
			return err
		}
		b := bytesOf(c.Bytes)
		for _, strict := range []bool{false, true} {
			n++
			p := ref.ParseFrame(b, strict)
			blocks := p.Blocks
			if blocks == nil {
				blocks = []ref.FrameBlock{}
			}
			w.put(rec{"ev": "refparse", "case": c.ID, "bytes": c.Bytes, "strict": strict, "status": p.Status,
				"content": ints(p.Content), "consumed": p.Consumed, "blocks": blocks})
		}
		return nil
	})
	if err != nil {
		return err
	}
	if err := w.close(); err != nil {
		return err
	}
	printJSON(map[string]int{"records": n})
	return nil
}

const smallFrame = 360 // frames up to this size are logged verbatim (byte level)

type wcase struct {
	ID     int       `json:"id"`
	Input  inputSpec `json:"input"`
	Opts   wopts     `json:"opts"`
	Calls  []wcall   `json:"calls"`
	FailAt int       `json:"failAt,omitempty"`
	Once   bool      `json:"once,omitempty"` // the sink fails only at call FailAt (transient fault)
	Save   string    `json:"save,omitempty"` // write the sink bytes to this file
	// PrefixOf names a file with the fault-free output of the same case: the record then says
	// whether what reached the sink is a prefix of it (C15)
	PrefixOf string `json:"prefixOf,omitempty"`
}

func refSummary(r ref.FrameResult, total int) rec {
	cs := []int{}
	if r.HasSize {
		l := u64limbs(r.Csize)
		cs = l[:]
	}
	blocks := r.Blocks
	if blocks == nil {
		blocks = []ref.FrameBlock{}
	}
	return rec{"status": r.Status, "consumed": r.Consumed, "contentLen": len(r.Content), "contentSha": shaID(r.Content),
		"flg": r.Flg, "bd": r.Bd, "csize": cs, "blocks": blocks, "legacy": r.Legacy, "total": total, "linkedok": r.LinkedOK}
}

func optsRec(o wopts) rec {
	cs := []int{}
	if o.Size != nil && *o.Size > 0 {
		l := u64limbs(*o.Size)
		cs = l[:]
	}
	code := o.Code
	if code == 0 {
		code = 7
	}
	return rec{"code": code, "bcs": o.BCS, "ccs": o.CCS, "size": cs, "legacy": o.Legacy, "level": o.Level, "conc": o.Conc, "handler": o.Handler}
}

// frameWrite runs Writer call histories and records calls, sink-call pattern and the emitted frame.
func frameWrite(args []string) error {
	fs := flag.NewFlagSet("frame-write", flag.ExitOnError)
	in := fs.String("cases", "", "")
	out := fs.String("out", "", "")
	wd := fs.Duration("watchdog", 120*time.Second, "")
	fs.Parse(args)
	w, err := newNDW(*out)
	if err != nil {
		return err
	}
	w.flush = true
	n := 0
	err = readND(*in, func(line []byte) error {
		var c wcase
		if err := json.Unmarshal(line, &c); err != nil {
			return err
		}
		n++
		input := c.Input.build()
		sink := &recSink{failAt: c.FailAt, once: c.Once, atFail: -1, limit: 1 << 28}
		var blocks []int
		decode := func(seg, in []byte) (int, bool) {
			p := ref.ParseFrame(seg, false)
			return len(p.Content), bytes.Equal(p.Content, in)
		}
		type wres struct {
			res      []callRes
			segs     []wseg
			panicked string
		}
		ch := make(chan wres, 1)
		go func() {
			r, sg, p := runWriter(c.Opts, input, c.Calls, sink, &blocks, decode)
			ch <- wres{r, sg, p}
		}()
		var res []callRes
		var segs []wseg
		var panicked string
		select {
		case r := <-ch:
			res, segs, panicked = r.res, r.segs, r.panicked
		case <-time.After(*wd):
			// a call did not return: record it and stop this process (its state is tainted)
			w.put(rec{"ev": "wrun", "case": c.ID, "hung": true, "opts": optsRec(c.Opts), "block": blockBytes(c.Opts)})
			w.close()
			printJSON(map[string]int{"cases": n, "hung": 1})
			os.Exit(0)
		}
		if sink.runaway {
			panicked = "runaway: the Writer wrote more than the sink limit"
		}
		b := sink.bytes()
		if c.Save != "" {
			if err := os.WriteFile(c.Save, b, 0o644); err != nil {
				return err
			}
		}
		var frames []rec
		for _, sg := range segs {
			seg := b[sg.SinkStart:sg.SinkEnd]
			p := ref.ParseFrame(seg, true)
			fr := refSummary(p, len(seg))
			fr["same"] = bytes.Equal(p.Content, input[sg.InStart:sg.InEnd])
			fr["segLen"] = len(seg)
			frames = append(frames, fr)
		}
		e := rec{"ev": "wrun", "case": c.ID, "opts": optsRec(c.Opts), "inputLen": len(input), "inputSha": shaID(input),
			"calls": res, "sinkCalls": sink.callSizes(), "sinkLen": len(b), "panicked": panicked, "handler": blocks,
			"frames": frames, "block": blockBytes(c.Opts), "hung": false,
			"small": len(b) <= smallFrame && len(input) <= smallFrame && len(segs) == 1}
		if len(b) <= smallFrame && len(input) <= smallFrame && len(segs) == 1 {
			e["bytes"] = ints(b)
			e["input"] = ints(input)
		}
		e["injected"] = c.FailAt > 0 && len(sink.callSizes()) >= c.FailAt
		e["sinkIsPrefix"] = true
		if c.PrefixOf != "" {
			full, err := os.ReadFile(c.PrefixOf)
			if err != nil {
				return err
			}
			// what had reached the sink when the failure was reported, i.e. when the first public call returned
			// the injected error (a concurrent Writer reports it later than it happens; whatever is written in
			// between counts); when no call reported it, what was there when the fault happened.  C15 is silent
			// about a caller who goes on after the failure was reported to him.
			upto := b
			reported := -1
			for _, r := range res {
				if r.Err == "injected" {
					reported = r.Sink
					break
				}
			}
			if reported >= 0 && reported <= len(b) {
				upto = b[:reported]
			} else if sink.atFail >= 0 && sink.atFail <= len(b) {
				upto = b[:sink.atFail]
			}
			e["sinkIsPrefix"] = isPrefix(upto, full)
		}
		w.put(e)
		return nil
	})
	if err != nil {
		return err
	}
	if err := w.close(); err != nil {
		return err
	}
	printJSON(map[string]int{"cases": n, "hung": 0})
	return nil
}

// ---- read side

type chunk struct {
	Bytes  []int  `json:"bytes,omitempty"`
	File   string `json:"file,omitempty"`
	Repeat int    `json:"repeat,omitempty"`
}

type rcase struct {
	ID      int             `json:"id"`
	Chunks  []chunk         `json:"chunks"`
	Ops     [][]int         `json:"ops,omitempty"` // see applyOps
	Cfg     rcfg            `json:"cfg"`
	Content *inputSpec      `json:"content,omitempty"` // the original content (prefix checks)
	Tag     json.RawMessage `json:"tag,omitempty"`
	MaxOut  int             `json:"maxout,omitempty"`
	Plan    *linkedPlan     `json:"plan,omitempty"` // the source is a dependent-block frame built from this plan
}

const (
	opCut  = 1 // [1, n]            keep the first n bytes
	opFlip = 2 // [2, pos, bit]
	opSet  = 3 // [3, pos, value]
	opDel  = 4 // [4, a, b]         delete [a, b)
	opDup  = 5 // [5, a, b]         insert a copy of [a, b) at b
	opSwap = 6 // [6, a, b, c]      swap [a, b) and [b, c)
	opIns  = 7 // [7, pos, v...]    insert bytes at pos
)

func applyOps(b []byte, ops [][]int) []byte {
	b = append([]byte(nil), b...)
	for _, o := range ops {
		switch o[0] {
		case opCut:
			if o[1] < len(b) {
				b = b[:o[1]]
			}
		case opFlip:
			if o[1] < len(b) {
				b[o[1]] ^= 1 << uint(o[2])
			}
		case opSet:
			if o[1] < len(b) {
				b[o[1]] = byte(o[2])
			}
		case opDel:
			if o[1] <= o[2] && o[2] <= len(b) {
				b = append(b[:o[1]:o[1]], b[o[2]:]...)
			}
		case opDup:
			if o[1] <= o[2] && o[2] <= len(b) {
				seg := append([]byte(nil), b[o[1]:o[2]]...)
				b = append(b[:o[2]:o[2]], append(seg, b[o[2]:]...)...)
			}
		case opSwap:
			if o[1] <= o[2] && o[2] <= o[3] && o[3] <= len(b) {
				x := append([]byte(nil), b[o[1]:o[2]]...)
				y := append([]byte(nil), b[o[2]:o[3]]...)
				copy(b[o[1]:], y)
				copy(b[o[1]+len(y):], x)
			}
		case opIns:
			if o[1] <= len(b) {
				ins := make([]byte, len(o)-2)
				for i, v := range o[2:] {
					ins[i] = byte(v)
				}
				b = append(b[:o[1]:o[1]], append(ins, b[o[1]:]...)...)
			}
		}
	}
	return b
}

var fileCache = map[string][]byte{}

func buildSource(c rcase) ([]byte, error) {
	var b []byte
	for _, ch := range c.Chunks {
		var piece []byte
		if ch.File != "" {
			p, ok := fileCache[ch.File]
			if !ok {
				var err error
				p, err = os.ReadFile(ch.File)
				if err != nil {
					return nil, err
				}
				fileCache[ch.File] = p
			}
			piece = p
		} else {
			piece = bytesOf(ch.Bytes)
		}
		rep := ch.Repeat
		if rep <= 0 {
			rep = 1
		}
		if rep == 1 {
			b = append(b, piece...)
		} else {
			b = append(b, bytes.Repeat(piece, rep)...)
		}
	}
	return applyOps(b, c.Ops), nil
}

func isPrefix(a, b []byte) bool { return len(a) <= len(b) && bytes.Equal(a, b[:len(a)]) }

// frameRead feeds (possibly hostile) byte strings to a Reader and records what it made of them,
// next to what the reference parser (LZ4Frame.tla: ParseLenient) says about the same bytes.
func frameRead(args []string) error {
	fs := flag.NewFlagSet("frame-read", flag.ExitOnError)
	in := fs.String("cases", "", "")
	out := fs.String("out", "", "")
	wd := fs.Duration("watchdog", 20*time.Second, "")
	mem := fs.Bool("mem", false, "record heap statistics (C07)")
	fs.Parse(args)
	w, err := newNDW(*out)
	if err != nil {
		return err
	}
	w.flush = true
	if *mem {
		// C07 sensor: recursion in proportion to the input shows as a fatal stack overflow well before
		// the default 1 GB goroutine stack limit is reached
		debug.SetMaxStack(32 << 20)
	}
	n := 0
	var contentKey string
	var contentCache []byte
	err = readND(*in, func(line []byte) error {
		var c rcase
		if err := json.Unmarshal(line, &c); err != nil {
			return err
		}
		n++
		src, err := buildSource(c)
		if err != nil {
			return err
		}
		var planContent []byte
		var rblocks [][2]int
		if c.Plan != nil {
			src, planContent = buildLinked(*c.Plan)
			src = applyOps(src, c.Ops)
			lz4.VerifOnBlock = func(b, dict int) { rblocks = append(rblocks, [2]int{b, dict}) }
		}
		limit := c.MaxOut
		if limit == 0 {
			limit = 1 << 28
		}
		var m0 *memStat
		if *mem {
			m0 = memBefore()
		}
		o := runReader(src, c.Cfg, *wd, limit)
		lz4.VerifOnBlock = nil
		e := rec{"ev": "read", "case": c.ID, "outcome": o.Outcome, "err": o.Err, "errtext": o.ErrText, "deliveredLen": len(o.Delivered),
			"deliveredSha": shaID(o.Delivered), "consumed": o.Consumed, "leaked": o.Leaked, "size": u64limbs(uint64(o.Size)),
			"calls": o.Calls, "srcLen": len(src), "cfg": c.Cfg, "extraErr": o.ExtraErr, "extraCons": o.ExtraCons, "srcCalls": o.SrcCalls}
		if o.ExtraErr == nil {
			e["extraErr"] = []string{}
		}
		if o.Calls+c.Cfg.Extra <= maxCallLog && o.Log != nil {
			e["log"] = o.Log
		}
		if *mem {
			e["mem"] = memAfter(m0)
		}
		if len(c.Tag) > 0 {
			e["tag"] = c.Tag
		}
		small := len(src) <= smallFrame && len(o.Delivered) <= 2*smallFrame
		e["small"] = small
		if small {
			e["bytes"] = ints(src)
			e["delivered"] = ints(o.Delivered)
		}
		if o.Outcome == "hang" {
			fmt.Fprintf(os.Stderr, "lz4verif: case %d hung:\n%s\n", c.ID, o.ErrText)
			e["errtext"] = "hang"
		}
		// the reference implementation of the frame specification on the same bytes
		if len(src) <= 64<<20 {
			p := ref.ParseFrame(src, false)
			rs := refSummary(p, len(src))
			rs["deliveredIsPrefix"] = isPrefix(o.Delivered, p.Content)
			rs["sameContent"] = bytes.Equal(o.Delivered, p.Content)
			e["ref"] = rs
		}
		if c.Plan != nil {
			if rblocks == nil {
				rblocks = [][2]int{}
			}
			e["rblocks"] = rblocks
			e["prefixOfContent"] = isPrefix(o.Delivered, planContent)
			e["sameAsContent"] = bytes.Equal(o.Delivered, planContent)
			e["contentLen"] = len(planContent)
			if small && len(planContent) <= 2*smallFrame {
				e["content"] = ints(planContent)
			}
		}
		if c.Content != nil {
			key := fmt.Sprint(*c.Content)
			if key != contentKey {
				contentCache = c.Content.build()
				contentKey = key
			}
			e["prefixOfContent"] = isPrefix(o.Delivered, contentCache)
			e["contentLen"] = len(contentCache)
			if small && len(contentCache) <= 2*smallFrame {
				e["content"] = ints(contentCache)
			}
		}
		w.put(e)
		if o.Outcome == "hang" {
			// the process is tainted by the abandoned goroutine: stop this batch here
			w.close()
			printJSON(map[string]int{"cases": n, "hung": 1})
			os.Exit(0)
		}
		return nil
	})
	if err != nil {
		return err
	}
	if err := w.close(); err != nil {
		return err
	}
	printJSON(map[string]int{"cases": n, "hung": 0})
	return nil
}

// ---- Reader call sequences (C17)

type rseqCall struct {
	Op string `json:"op"`
	Sz int    `json:"sz"`
}

type rseqCase struct {
	ID       int        `json:"id"`
	Chunks   []chunk    `json:"chunks"`
	Trailing []int      `json:"trailing,omitempty"`
	Calls    []rseqCall `json:"calls"`
	Conc     int        `json:"conc"`
	Content  *inputSpec `json:"content,omitempty"`
}

func init() { register("reader-seq", readerSeq) }

// readerSeq executes arbitrary call sequences (Read, WriteTo, Size, Apply, Reset) on a Reader whose
// source holds one valid frame followed by optional trailing bytes.
func readerSeq(args []string) error {
	fs := flag.NewFlagSet("reader-seq", flag.ExitOnError)
	in := fs.String("cases", "", "")
	out := fs.String("out", "", "")
	wd := fs.Duration("watchdog", 20*time.Second, "")
	fs.Parse(args)
	w, err := newNDW(*out)
	if err != nil {
		return err
	}
	w.flush = true
	n := 0
	err = readND(*in, func(line []byte) error {
		var c rseqCase
		if err := json.Unmarshal(line, &c); err != nil {
			return err
		}
		n++
		frame, err := buildSource(rcase{Chunks: c.Chunks})
		if err != nil {
			return err
		}
		data := append(append([]byte{}, frame...), bytesOf(c.Trailing)...)
		var content []byte
		if c.Content != nil {
			content = c.Content.build()
		}
		type result struct {
			calls    []rec
			panicked string
			prefixOK bool
			same     bool
		}
		done := make(chan result, 1)
		go func() {
			res := result{prefixOK: true}
			defer func() {
				if r := recover(); r != nil {
					res.panicked = fmt.Sprint(r)
				}
				done <- res
			}()
			src := &fragReader{data: data}
			zr := lz4.NewReader(src)
			if c.Conc != 1 {
				_ = zr.Apply(lz4.ConcurrencyOption(c.Conc))
			}
			var delivered []byte
			for _, call := range c.Calls {
				before := srcPos(src)
				e := rec{"op": call.Op, "sz": call.Sz, "n": 0, "err": "none", "size": []int{0, 0, 0, 0}}
				switch call.Op {
				case "read":
					buf := make([]byte, call.Sz)
					k, err := zr.Read(buf)
					e["n"], e["err"] = k, classify(err)
					if k > 0 && k <= call.Sz {
						delivered = append(delivered, buf[:k]...)
					}
				case "writeto":
					var ob bytes.Buffer
					k, err := zr.WriteTo(&ob)
					e["n"], e["err"] = int(k), classify(err)
					delivered = append(delivered, ob.Bytes()...)
				case "size":
					l := u64limbs(uint64(zr.Size()))
					e["size"] = l[:]
				case "apply":
					e["err"] = classify(zr.Apply(lz4.ConcurrencyOption(c.Conc)))
				case "reset":
					if !isPrefix(delivered, content) {
						res.prefixOK = false
					}
					delivered = nil
					src = &fragReader{data: data}
					before = 0
					zr.Reset(src)
				}
				e["cons"] = srcPos(src) - before
				e["st"], _, _ = zr.VerifState() // the lifecycle state after the call
				res.calls = append(res.calls, e)
			}
			if !isPrefix(delivered, content) {
				res.prefixOK = false
			}
			res.same = bytes.Equal(delivered, content)
		}()
		e := rec{"ev": "rseq", "case": c.ID, "total": len(content), "conc": c.Conc, "frameLen": len(frame)}
		select {
		case r := <-done:
			e["calls"], e["panicked"], e["prefixok"], e["same"], e["hung"] = r.calls, r.panicked, r.prefixOK, r.same, false
			w.put(e)
		case <-time.After(*wd):
			e["calls"], e["panicked"], e["prefixok"], e["same"], e["hung"] = []rec{}, "", false, false, true
			w.put(e)
			w.close()
			printJSON(map[string]int{"cases": n, "hung": 1})
			os.Exit(0)
		}
		return nil
	})
	if err != nil {
		return err
	}
	if err := w.close(); err != nil {
		return err
	}
	printJSON(map[string]int{"cases": n, "hung": 0})
	return nil
}

func init() { register("frame-parsefile", frameParseFile) }

// frameParseFile prints the reference parser's strict summary of a file and whether its content
// equals another file (used for the .lz4 files written by the lz4c command, C20).
func frameParseFile(args []string) error {
	fs := flag.NewFlagSet("frame-parsefile", flag.ExitOnError)
	file := fs.String("file", "", "")
	input := fs.String("input", "", "")
	fs.Parse(args)
	b, err := os.ReadFile(*file)
	if err != nil {
		return err
	}
	in, err := os.ReadFile(*input)
	if err != nil {
		return err
	}
	p := ref.ParseFrame(b, true)
	s := refSummary(p, len(b))
	s["same"] = bytes.Equal(p.Content, in)
	s["blocks"] = len(p.Blocks)
	printJSON(s)
	return nil
}
