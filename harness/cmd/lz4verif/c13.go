package main

import (
	"encoding/json"
	"flag"
	"fmt"

	lz4 "github.com/pierrec/lz4/v4"

	"lz4verif/ref"
)

func init() {
	register("xxh-replay", xxhReplay)
	register("xxh-record", xxhRecord)
	register("xxh-big", xxhBig)
	register("xxh-inject", xxhInject)
	register("xxh-refconf", xxhRefConf)
	register("xxh-rerun", xxhRerun)
}

type xxhWrite struct {
	N int `json:"n"`
	H U32 `json:"h"`
}

type xxhCase struct {
	Kind    string     `json:"kind"`
	Data    []int      `json:"data"`
	Writes  []xxhWrite `json:"writes"`
	Oneshot U32        `json:"oneshot"`
}

type mismatch struct {
	Case   int         `json:"case"`
	What   string      `json:"what"`
	Expect interface{} `json:"expect"`
	Got    interface{} `json:"got"`
	Input  interface{} `json:"input,omitempty"`
}

// xxhReplay drives the real streaming hash through every behaviour exported by MC_XXH32
// and compares the digest after every write with the value TLC computed.
func xxhReplay(args []string) error {
	fs := flag.NewFlagSet("xxh-replay", flag.ExitOnError)
	in := fs.String("cases", "", "ndjson of TLC cases")
	out := fs.String("out", "", "ndjson of mismatches")
	fs.Parse(args)
	w, err := newNDW(*out)
	if err != nil {
		return err
	}
	n, steps, bad := 0, 0, 0
	distinct := map[string]bool{}
	err = readND(*in, func(line []byte) error {
		var c xxhCase
		if err := json.Unmarshal(line, &c); err != nil {
			return err
		}
		n++
		data := bytesOf(c.Data)
		key := fmt.Sprint(len(data), ":")
		var x lz4.VerifXXH32
		x.Reset()
		pos := 0
		for i, wr := range c.Writes {
			key += fmt.Sprint(wr.N, ",")
			x.Write(data[pos : pos+wr.N])
			pos += wr.N
			steps++
			if got := x.Sum32(); got != wr.H.val() {
				bad++
				w.put(mismatch{Case: n, What: fmt.Sprintf("streaming digest after write %d", i+1), Expect: wr.H, Got: u32(got), Input: c})
				break
			}
		}
		if got := lz4.VerifChecksumZero(data); got != c.Oneshot.val() {
			bad++
			w.put(mismatch{Case: n, What: "one-shot digest", Expect: c.Oneshot, Got: u32(got), Input: c})
		}
		if len(data) > 0 {
			distinct[key] = true
		}
		return nil
	})
	if err != nil {
		return err
	}
	if err := w.close(); err != nil {
		return err
	}
	printJSON(map[string]int{"cases": n, "steps": steps, "mismatches": bad, "distinct_nontrivial": len(distinct)})
	return nil
}

type rec map[string]interface{}

func lanes(v [4]uint32) []U32 { return []U32{u32(v[0]), u32(v[1]), u32(v[2]), u32(v[3])} }

func stateEvent(ev string, cs int, x *lz4.VerifXXH32) rec {
	v, total, buf, used := x.VerifState()
	return rec{"ev": ev, "case": cs, "v": lanes(v), "total": u64limbs(total), "buf": ints(buf[:used]), "h": u32(x.Sum32())}
}

// xxhRecord runs seeded random inputs and splits through the real streaming hash and the
// real one-shot function, logging one event per call with the internal state after it.
func xxhRecord(args []string) error {
	fs := flag.NewFlagSet("xxh-record", flag.ExitOnError)
	seed := fs.Int64("seed", 1, "")
	n := fs.Int("n", 1000, "number of inputs")
	maxLen := fs.Int("maxlen", 200, "")
	out := fs.String("out", "", "")
	fs.Parse(args)
	w, err := newNDW(*out)
	if err != nil {
		return err
	}
	r := rng(*seed, "xxh-record")
	var x lz4.VerifXXH32
	for c := 1; c <= *n; c++ {
		var ln int
		switch r.Intn(4) {
		case 0:
			ln = r.Intn(40)
		case 1:
			ln = 16*r.Intn(*maxLen/16+1) + r.Intn(3) - 1
			if ln < 0 {
				ln = 0
			}
		default:
			ln = r.Intn(*maxLen + 1)
		}
		data := randBytes(r, ln)
		// the first cases are inputs built from the specification so that one accumulator lane is exactly 0 at a
		// stripe boundary (after the first or the second stripe), followed by a few more bytes
		crafted := 0
		if c <= 32 {
			k := c - 1
			prefix := randBytes(r, 16*(k/4%2))
			data = append(ref.ZeroLaneInput(prefix, k%4, byte(17*k)), randBytes(r, []int{0, 1, 5, 16, 21}[k%5])...)
			crafted = len(prefix) + 16
		}
		// two inputs per case through one object: the second Reset finds it with whatever the first input left
		// buffered; the digest right after Reset (no Write yet) is the digest of the empty input
		if c%2 == 1 {
			x = lz4.VerifXXH32{}
		}
		c := (c + 1) / 2
		x.Reset()
		w.put(stateEvent("reset", c, &x))
		pos := 0
		for pos < len(data) || r.Intn(4) == 0 {
			k := 0
			if crafted > 0 && pos < crafted {
				k = crafted - pos // one Write ends exactly at the stripe boundary where the lane is 0 ...
				if pos == 0 && c%2 == 0 {
					k = 16 * (crafted / 32) // (or the prefix stripe first)
					if k == 0 {
						k = crafted
					}
				}
			} else if crafted > 0 && pos == crafted && c%3 == 0 {
				crafted = -1 // ... then, sometimes, an empty Write
			} else if pos < len(data) {
				switch r.Intn(3) {
				case 0:
					k = r.Intn(len(data) - pos + 1)
				case 1:
					k = r.Intn(18)
				default:
					k = 1 + r.Intn(48)
				}
				if k > len(data)-pos {
					k = len(data) - pos
				}
			}
			x.Write(data[pos : pos+k])
			e := stateEvent("write", c, &x)
			e["chunk"] = ints(data[pos : pos+k])
			w.put(e)
			pos += k
			if pos >= len(data) && k == 0 {
				break
			}
		}
		w.put(rec{"ev": "oneshot", "case": c, "data": ints(data), "h": u32(lz4.VerifChecksumZero(data))})
	}
	if err := w.close(); err != nil {
		return err
	}
	printJSON(map[string]int{"cases": *n, "events": w.n})
	return nil
}

// xxhBig writes 2^32-1 .. 2^32+16 bytes (really) through the streaming hash and logs the
// final state and digest next to those of ref.Stream fed the same bytes.
func xxhBig(args []string) error {
	fs := flag.NewFlagSet("xxh-big", flag.ExitOnError)
	out := fs.String("out", "", "")
	lo := fs.Int("below", 1, "first total is 2^32-below")
	hi := fs.Int("above", 16, "last total is 2^32+above")
	oneshot := fs.Bool("oneshot", false, "also hash the same bytes with single ChecksumZero calls (needs 4 GiB of memory)")
	fs.Parse(args)
	w, err := newNDW(*out)
	if err != nil {
		return err
	}
	const mib = 1 << 20
	pat := make([]byte, mib)
	for i := range pat {
		pat[i] = byte((i*151 + 43 + (i/7)*13) % 251)
	}
	var x lz4.VerifXXH32
	x.Reset()
	rs := ref.NewStream()
	// 4095 MiB + (1 MiB - below) bytes = 2^32 - below
	for i := 0; i < 4095; i++ {
		x.Write(pat)
		rs.Write(pat)
	}
	x.Write(pat[:mib-*lo])
	rs.Write(pat[:mib-*lo])
	tail := make([]byte, *lo+*hi)
	for i := range tail {
		tail[i] = byte(200 - 3*i)
	}
	var whole []byte
	if *oneshot {
		whole = make([]byte, 0, 4096*mib+*hi)
		for i := 0; i < 4095; i++ {
			whole = append(whole, pat...)
		}
		whole = append(whole, pat[:mib-*lo]...)
		whole = append(whole, tail...)
	}
	c := 0
	for k := 0; k <= *lo+*hi; k++ {
		if *oneshot {
			// the one-shot function on the same 2^32 - below + k bytes; the reference is the stream digest
			ry := *rs
			ry.Buf = append([]byte(nil), rs.Buf...)
			ry.Write(tail[:k])
			n := 4095*mib + mib - *lo + k
			c++
			w.put(rec{"ev": "bigone", "case": c, "total": u64limbs(uint64(n)), "h": u32(lz4.VerifChecksumZero(whole[:n])), "refh": u32(ry.Sum())})
		}
		// clone both machines and finish with k more bytes, in one write and byte by byte
		for _, single := range []bool{false, true} {
			c++
			y := x // XXHZero is a value type
			ry := *rs
			ry.Buf = append([]byte(nil), rs.Buf...)
			if single {
				for j := 0; j < k; j++ {
					y.Write(tail[j : j+1])
					ry.Write(tail[j : j+1])
				}
			} else {
				y.Write(tail[:k])
				ry.Write(tail[:k])
			}
			e := stateEvent("final", c, &y)
			e["refh"] = u32(ry.Sum())
			e["refv"] = lanes(ry.V)
			w.put(e)
		}
	}
	if err := w.close(); err != nil {
		return err
	}
	printJSON(map[string]int{"cases": c, "events": w.n})
	return nil
}

type injCase struct {
	Kind  string `json:"kind"`
	V     []U32  `json:"v"`
	Total [4]int `json:"total"`
	Buf   []int  `json:"buf"`
	H     U32    `json:"h"`
}

// xxhInject sets the streaming state to TLC-chosen values (totals around 2^32, 2^33,
// 2^64-1, every carry-buffer fill) and compares the digest with TLC's.
func xxhInject(args []string) error {
	fs := flag.NewFlagSet("xxh-inject", flag.ExitOnError)
	in := fs.String("cases", "", "")
	out := fs.String("out", "", "")
	fs.Parse(args)
	w, err := newNDW(*out)
	if err != nil {
		return err
	}
	n, bad := 0, 0
	err = readND(*in, func(line []byte) error {
		var c injCase
		if err := json.Unmarshal(line, &c); err != nil {
			return err
		}
		n++
		var x lz4.VerifXXH32
		var v [4]uint32
		for i := range v {
			v[i] = c.V[i].val()
		}
		var buf [16]byte
		copy(buf[:], bytesOf(c.Buf))
		x.VerifSetState(v, limbs64(c.Total), buf, len(c.Buf))
		if got := x.Sum32(); got != c.H.val() {
			bad++
			w.put(mismatch{Case: n, What: "digest of injected state", Expect: c.H, Got: u32(got), Input: c})
		}
		return nil
	})
	if err != nil {
		return err
	}
	if err := w.close(); err != nil {
		return err
	}
	printJSON(map[string]int{"cases": n, "mismatches": bad, "distinct_nontrivial": n})
	return nil
}

// xxhRefConf logs results of ref.XXH32 / ref.Stream for TLC to recompute (ref-conformance).
func xxhRefConf(args []string) error {
	fs := flag.NewFlagSet("xxh-refconf", flag.ExitOnError)
	seed := fs.Int64("seed", 1, "")
	n := fs.Int("n", 500, "")
	out := fs.String("out", "", "")
	fs.Parse(args)
	w, err := newNDW(*out)
	if err != nil {
		return err
	}
	r := rng(*seed, "xxh-refconf")
	for c := 1; c <= *n; c++ {
		data := randBytes(r, r.Intn(120))
		if c <= 70 {
			data = randBytes(r, c-1)
		}
		st := ref.NewStream()
		cut := 0
		if len(data) > 0 {
			cut = r.Intn(len(data) + 1)
		}
		st.Write(data[:cut])
		st.Write(data[cut:])
		w.put(rec{"ev": "ref", "case": c, "data": ints(data), "h": u32(ref.XXH32(data)), "refh": u32(st.Sum()), "cut": cut})
	}
	if err := w.close(); err != nil {
		return err
	}
	printJSON(map[string]int{"cases": *n, "events": w.n})
	return nil
}

// xxhRerun re-executes the calls of recorded xxh events (reset / write / oneshot) on the
// real code and records them afresh: the re-execution step of the verdict protocol.
func xxhRerun(args []string) error {
	fs := flag.NewFlagSet("xxh-rerun", flag.ExitOnError)
	in := fs.String("in", "", "")
	out := fs.String("out", "", "")
	fs.Parse(args)
	w, err := newNDW(*out)
	if err != nil {
		return err
	}
	var x lz4.VerifXXH32
	x.Reset()
	err = readND(*in, func(line []byte) error {
		var e struct {
			Ev    string `json:"ev"`
			Case  int    `json:"case"`
			Chunk []int  `json:"chunk"`
			Data  []int  `json:"data"`
		}
		if err := json.Unmarshal(line, &e); err != nil {
			return err
		}
		switch e.Ev {
		case "reset":
			x.Reset()
			w.put(stateEvent("reset", e.Case, &x))
		case "write":
			x.Write(bytesOf(e.Chunk))
			r := stateEvent("write", e.Case, &x)
			r["chunk"] = e.Chunk
			w.put(r)
		case "oneshot":
			w.put(rec{"ev": "oneshot", "case": e.Case, "data": e.Data, "h": u32(lz4.VerifChecksumZero(bytesOf(e.Data)))})
		default:
			return fmt.Errorf("cannot re-execute event %q", e.Ev)
		}
		return nil
	})
	if err != nil {
		return err
	}
	return w.close()
}
