package main

import (
	"bytes"
	"encoding/json"
	"flag"
	"fmt"
	"strconv"
	"sync"

	lz4 "github.com/pierrec/lz4/v4"

	"lz4verif/ref"
)

func init() {
	register("cmp-run", cmpRun)
	register("bound-grid", boundGrid)
}

// boundGrid prints the code's CompressBlockBound(n) for every n given on the command line
// (C01: compared with BoundLemma!WorstCaseSize by the check).
func boundGrid(args []string) error {
	out := make(map[string]int, len(args))
	for _, a := range args {
		n, err := strconv.Atoi(a)
		if err != nil {
			return err
		}
		out[a] = lz4.CompressBlockBound(n)
	}
	printJSON(out)
	return nil
}

type cmpCall struct {
	Obj    [2]string `json:"obj"` // kind ("fast"|"hc"), name ("pool" = package-level function)
	Input  inputSpec `json:"input"`
	Depth  int       `json:"depth"`
	DstLen int       `json:"dstLen"` // -1: CompressBlockBound(len(src)); -2-k: bound+k
	Spare  int       `json:"spare"`
}

type cmpCase struct {
	ID    int       `json:"id"`
	Calls []cmpCall `json:"calls"`
	Par   int       `json:"par,omitempty"` // >1: run the calls from that many goroutines (pool migration)
}

type compressorSet struct {
	fast map[string]*lz4.Compressor
	hc   map[string]*lz4.CompressorHC
}

func (cs *compressorSet) call(c cmpCall, src, dst []byte) (n int, err error, panicked string) {
	defer func() {
		if r := recover(); r != nil {
			panicked = fmt.Sprint(r)
		}
	}()
	switch {
	case c.Obj[0] == "fast" && c.Obj[1] == "pool":
		return retN(lz4.CompressBlock(src, dst, nil))
	case c.Obj[0] == "fast":
		o := cs.fast[c.Obj[1]]
		if o == nil {
			o = new(lz4.Compressor)
			cs.fast[c.Obj[1]] = o
		}
		return retN(o.CompressBlock(src, dst))
	case c.Obj[1] == "pool":
		return retN(lz4.CompressBlockHC(src, dst, lz4.CompressionLevel(c.Depth), nil, nil))
	default:
		o := cs.hc[c.Obj[1]]
		if o == nil {
			o = new(lz4.CompressorHC)
			cs.hc[c.Obj[1]] = o
		}
		o.Level = lz4.CompressionLevel(c.Depth)
		return retN(o.CompressBlock(src, dst))
	}
}

func retN(n int, err error) (int, error, string) { return n, err, "" }

const byteLevelMax = 160

// one executes a single compress call and observes everything C01/C10/C11/C14 talk about.
func (cs *compressorSet) one(id, idx int, c cmpCall, ar *arena) rec {
	src := c.Input.build()
	dstLen := c.DstLen
	if dstLen < 0 {
		dstLen = lz4.CompressBlockBound(len(src)) + (-1 - dstLen)
	}
	dst := ar.slot(dstLen, c.Spare)
	srcCopy := append([]byte(nil), src...)
	n, err, p := cs.call(c, src, dst)
	e := rec{"ev": "compress", "case": id, "idx": idx, "kind": c.Obj[0], "obj": c.Obj[1], "depth": c.Depth,
		"srcLen": len(src), "dstLen": dstLen, "bound": ref.CompressBound(len(src)), "realBound": lz4.CompressBlockBound(len(src)), "n": n, "err": err != nil, "panicked": p,
		"canary": ar.intact(dstLen), "srcok": bytes.Equal(src, srcCopy), "srcid": shaID(src)}
	ok := p == "" && err == nil && n > 0 && n <= dstLen
	if !ok {
		e["outid"] = fmt.Sprintf("n=%d,err=%v", n, err != nil)
		e["big"] = len(src) > byteLevelMax
		if len(src) <= byteLevelMax {
			e["src"] = ints(src)
			e["block"] = []int{}
		}
		return e
	}
	blk := append([]byte(nil), dst[:n]...)
	e["outid"] = shaID(blk)
	// the real decoder on the real block, destination of exactly the original length
	out := make([]byte, len(src))
	dn, derr := lz4.UncompressBlock(blk, out)
	e["dec"] = rec{"n": dn, "err": derr != nil, "same": derr == nil && dn == len(src) && bytes.Equal(out[:dn], src)}
	if len(src) <= byteLevelMax {
		e["big"] = false
		e["src"] = ints(src)
		e["block"] = ints(blk)
		return e
	}
	// field level: sequence triples from the reference parser, per-sequence equalities
	// evaluated on the source (lemma DecodeBySeqs, model-checked in MC_LZ4Block)
	e["big"] = true
	r, total := ref.DecodeBlock(blk, nil, 1<<31-1, false)
	seqs := make([][4]int, len(r.Seqs)) // lit, off, mlen, output position where the sequence starts
	litsok, matchesok := true, true
	pos, bi := 0, 0
	for i, s := range r.Seqs {
		seqs[i] = [4]int{s.Lit, s.Off, s.MLen, pos}
		// literal bytes in the block: skip token and length bytes
		bi++
		if s.Lit >= 15 {
			bi += (s.Lit-15)/255 + 1
		}
		if pos+s.Lit > len(src) || bi+s.Lit > len(blk) || !bytes.Equal(blk[bi:bi+s.Lit], src[pos:pos+s.Lit]) {
			litsok = false
			break
		}
		bi += s.Lit
		pos += s.Lit
		if s.MLen > 0 {
			bi += 2
			if s.MLen-4 >= 15 {
				bi += (s.MLen-4-15)/255 + 1
			}
			if s.Off <= 0 || s.Off > pos || pos+s.MLen > len(src) {
				matchesok = false
				break
			}
			for k := 0; k < s.MLen; k++ {
				if src[pos+k] != src[pos+k-s.Off] {
					matchesok = false
					break
				}
			}
			pos += s.MLen
		}
	}
	e["parse"] = r.Kind
	e["total"] = total
	e["litsok"] = litsok
	e["matchesok"] = matchesok
	e["seqs"] = seqs
	e["nseqs"] = len(seqs)
	return e
}

func cmpRun(args []string) error {
	fs := flag.NewFlagSet("cmp-run", flag.ExitOnError)
	in := fs.String("cases", "", "")
	out := fs.String("out", "", "")
	fs.Parse(args)
	w, err := newNDW(*out)
	if err != nil {
		return err
	}
	ncalls := 0
	err = readND(*in, func(line []byte) error {
		var c cmpCase
		if err := json.Unmarshal(line, &c); err != nil {
			return err
		}
		cs := &compressorSet{fast: map[string]*lz4.Compressor{}, hc: map[string]*lz4.CompressorHC{}}
		if c.Par <= 1 {
			var ar arena
			for i, call := range c.Calls {
				w.put(cs.one(c.ID, i, call, &ar))
				ncalls++
			}
			return nil
		}
		// concurrent use of the package-level functions (pooled compressors migrate between
		// goroutines); caller-owned objects are not shared
		recs := make([]rec, len(c.Calls))
		var wg sync.WaitGroup
		for g := 0; g < c.Par; g++ {
			wg.Add(1)
			go func(g int) {
				defer wg.Done()
				var ar arena
				own := &compressorSet{fast: map[string]*lz4.Compressor{}, hc: map[string]*lz4.CompressorHC{}}
				for i := g; i < len(c.Calls); i += c.Par {
					recs[i] = own.one(c.ID, i, c.Calls[i], &ar)
				}
			}(g)
		}
		wg.Wait()
		for _, r := range recs {
			w.put(r)
			ncalls++
		}
		return nil
	})
	if err != nil {
		return err
	}
	if err := w.close(); err != nil {
		return err
	}
	printJSON(map[string]int{"calls": ncalls})
	return nil
}
