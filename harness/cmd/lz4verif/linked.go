package main

import (
	"bytes"
	"flag"
	"fmt"
	"io"
	"math/rand"

	lz4 "github.com/pierrec/lz4/v4"

	"lz4verif/ref"
)

// linkedPlan describes a frame with dependent blocks for the independent encoder (C16).
type linkedPlan struct {
	Code   int      `json:"code"`
	BCS    bool     `json:"bcs"`
	CCS    bool     `json:"ccs"`
	Seed   int64    `json:"seed"`
	Blocks []lblock `json:"blocks"`
	Size   bool     `json:"size,omitempty"` // declare the content size in the header
}

type lblock struct {
	Size int    `json:"size"` // decoded size of the block
	Kind string `json:"kind"` // raw | lits | m1 | m2 | mfar | mprev | mstraddle | moff
	Off  int    `json:"off,omitempty"`
}

// buildLinked encodes the plan with ref.EncodeFrame (LZ4Frame.tla: EncodeFrame, blocks not
// independent) and returns the frame and the content it denotes.
func buildLinked(p linkedPlan) (frame, content []byte) {
	r := rand.New(rand.NewSource(p.Seed*31 + 7))
	var blks []ref.EncBlock
	prevLen := 0
	fresh := func(n int) []byte {
		b := make([]byte, n)
		r.Read(b)
		return b
	}
	for _, b := range p.Blocks {
		start := len(content)
		kind := b.Kind
		if b.Size < 12 && kind != "raw" {
			kind = "lits"
		}
		switch kind {
		case "raw":
			d := fresh(b.Size)
			blks = append(blks, ref.EncBlock{Data: d, Raw: true})
			content = append(content, d...)
		case "lits":
			d := fresh(b.Size)
			blks = append(blks, ref.EncBlock{Data: ref.SerLast(d)})
			content = append(content, d...)
		case "m2":
			// two matches in one block: a non-overlapping match inside the block (copied with memmove by the
			// assembly decoders), then a match whose source starts in the preceding blocks, then a long literal tail
			if b.Size < 120 || start < 8 {
				d := fresh(b.Size)
				blks = append(blks, ref.EncBlock{Data: ref.SerLast(d)})
				content = append(content, d...)
				break
			}
			l1 := fresh(20)
			content = append(content, l1...)
			m1 := 20 + (b.Size-120)/2
			if m1 > 20 {
				m1 = 20 + (m1-20)%300
			}
			base := len(content) - 20
			for k := 0; k < m1; k++ {
				content = append(content, content[base+k%20])
			}
			l2 := fresh(3)
			content = append(content, l2...)
			off2 := len(content) - start + 5 // starts 5 bytes before this block
			if b.Off > 0 && b.Off >= len(content)-start+1 && b.Off <= len(content) && b.Off <= 65535 {
				off2 = b.Off
			}
			if off2 > 65535 {
				off2 = 65535
			}
			m2 := 8
			base = len(content) - off2
			for k := 0; k < m2; k++ {
				content = append(content, content[base+k%off2])
			}
			t := fresh(b.Size - (len(content) - start))
			content = append(content, t...)
			d := append(ref.SerSeq(l1, 20, m1), ref.SerSeq(l2, off2, m2)...)
			d = append(d, ref.SerLast(t)...)
			blks = append(blks, ref.EncBlock{Data: d})
		default:
			lit, tail := 3, 5
			m := b.Size - lit - tail
			lits := fresh(lit)
			content = append(content, lits...)
			avail := len(content)
			if avail > 65535 {
				avail = 65535
			}
			off := 1
			switch kind {
			case "m1":
				off = 1
			case "mfar":
				off = avail
			case "mprev":
				off = lit + prevLen // the first byte of the previous block
			case "mstraddle":
				off = lit + 3 // starts 3 bytes before this block
			case "moff":
				off = b.Off
			}
			if off > avail {
				off = avail
			}
			if off < 1 {
				off = 1
			}
			base := len(content) - off
			for k := 0; k < m; k++ {
				content = append(content, content[base+k%off])
			}
			t := fresh(tail)
			content = append(content, t...)
			d := append(ref.SerSeq(lits, off, m), ref.SerLast(t)...)
			blks = append(blks, ref.EncBlock{Data: d})
		}
		prevLen = len(content) - start
	}
	o := ref.FrameOpts{Code: p.Code, Indep: false, BlockCS: p.BCS, ContCS: p.CCS, HasSize: p.Size, Size: uint64(len(content))}
	return ref.EncodeFrame(o, blks, content), content
}

func init() { register("big-linked", bigLinked) }

// genLinked streams a frame with dependent 4 MiB blocks whose content is all 'A': the first block is three
// literals, a run (offset 1) and five literals; every later block is one literal, a match at offset 65535 (its
// source lies in the preceding block) and five literals.  No checksums.
type genLinked struct {
	blocks int
	k      int
	cur    []byte
	first  []byte
	next   []byte
	done   bool
}

func lenBytes(n int) []byte {
	var out []byte
	for n >= 255 {
		out = append(out, 255)
		n -= 255
	}
	return append(out, byte(n))
}

func newGenLinked(blocks int) *genLinked {
	const bs = 4 << 20
	mk := func(lits, off int) []byte {
		m := bs - lits - 5
		b := []byte{byte(lits<<4 | 15)}
		for i := 0; i < lits; i++ {
			b = append(b, 'A')
		}
		b = append(b, byte(off), byte(off>>8))
		b = append(b, lenBytes(m-4-15)...)
		b = append(b, 0x50, 'A', 'A', 'A', 'A', 'A')
		return b
	}
	wrap := func(b []byte) []byte {
		n := len(b)
		return append([]byte{byte(n), byte(n >> 8), byte(n >> 16), byte(n >> 24)}, b...)
	}
	g := &genLinked{blocks: blocks, first: wrap(mk(3, 1)), next: wrap(mk(1, 65535))}
	hdr := []byte{0x04, 0x22, 0x4D, 0x18, 0x40, 0x70}
	hdr = append(hdr, byte(ref.XXH32(hdr[4:6])>>8))
	g.cur = hdr
	return g
}

func (g *genLinked) Read(p []byte) (int, error) {
	for len(g.cur) == 0 {
		switch {
		case g.k < g.blocks:
			if g.k == 0 {
				g.cur = g.first
			} else {
				g.cur = g.next
			}
			g.k++
		case !g.done:
			g.cur = []byte{0, 0, 0, 0}
			g.done = true
		default:
			return 0, io.EOF
		}
	}
	n := copy(p, g.cur)
	g.cur = g.cur[n:]
	return n, nil
}

// bigLinked decodes such a frame of --blocks blocks (1026 blocks = 4 GiB + 8 MiB: the Reader's 32-bit byte
// counters wrap on the way) and reports length and content of what was delivered.
func bigLinked(args []string) error {
	fs := flag.NewFlagSet("big-linked", flag.ExitOnError)
	blocks := fs.Int("blocks", 1026, "")
	conc := fs.Int("conc", 1, "")
	mode := fs.String("mode", "read", "")
	buf := fs.Int("buf", 1<<20, "")
	fs.Parse(args)
	zr := lz4.NewReader(newGenLinked(*blocks))
	if *conc != 1 {
		_ = zr.Apply(lz4.ConcurrencyOption(*conc))
	}
	var total int64
	allA := true
	check := func(p []byte) {
		total += int64(len(p))
		if allA && bytes.Count(p, []byte{'A'}) != len(p) {
			allA = false
		}
	}
	var err error
	panicked := ""
	func() {
		defer func() {
			if r := recover(); r != nil {
				panicked = fmt.Sprint(r)
			}
		}()
		if *mode == "writeto" {
			_, err = zr.WriteTo(writerFunc(func(p []byte) (int, error) { check(p); return len(p), nil }))
		} else {
			b := make([]byte, *buf)
			for {
				var n int
				n, err = zr.Read(b)
				check(b[:n])
				if err != nil {
					break
				}
			}
			if err == io.EOF {
				err = nil
			}
		}
	}()
	printJSON(rec{"blocks": *blocks, "expected": int64(*blocks) * (4 << 20), "delivered": total, "allA": allA, "err": classify(err), "panicked": panicked})
	return nil
}

type writerFunc func(p []byte) (int, error)

func (f writerFunc) Write(p []byte) (int, error) { return f(p) }
