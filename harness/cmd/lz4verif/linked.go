package main

import (
	"math/rand"

	"lz4verif/ref"
)

// linkedPlan describes a frame with dependent blocks for the independent encoder (C16).
type linkedPlan struct {
	Code   int      `json:"code"`
	BCS    bool     `json:"bcs"`
	CCS    bool     `json:"ccs"`
	Seed   int64    `json:"seed"`
	Blocks []lblock `json:"blocks"`
}

type lblock struct {
	Size int    `json:"size"` // decoded size of the block
	Kind string `json:"kind"` // raw | lits | m1 | m2 | mfar | mprev | mstraddle | moff
	Off  int    `json:"off,omitempty"`
}

// buildLinked encodes the plan with ref.EncodeFrame (LZ4Frame.tla: EncodeFrame, blocks not
// independent) and returns the frame and the content it denotes.
func buildLinked(p linkedPlan) (frame, content []byte) {
	r := rand.New(rand.NewSource(p.Seed*31 + 7))
	var blks []ref.EncBlock
	prevLen := 0
	fresh := func(n int) []byte {
		b := make([]byte, n)
		r.Read(b)
		return b
	}
	for _, b := range p.Blocks {
		start := len(content)
		kind := b.Kind
		if b.Size < 12 && kind != "raw" {
			kind = "lits"
		}
		switch kind {
		case "raw":
			d := fresh(b.Size)
			blks = append(blks, ref.EncBlock{Data: d, Raw: true})
			content = append(content, d...)
		case "lits":
			d := fresh(b.Size)
			blks = append(blks, ref.EncBlock{Data: ref.SerLast(d)})
			content = append(content, d...)
		case "m2":
			// two matches in one block: a non-overlapping match inside the block (copied with memmove by the
			// assembly decoders), then a match whose source starts in the preceding blocks, then a long literal tail
			if b.Size < 120 || start < 8 {
				d := fresh(b.Size)
				blks = append(blks, ref.EncBlock{Data: ref.SerLast(d)})
				content = append(content, d...)
				break
			}
			l1 := fresh(20)
			content = append(content, l1...)
			m1 := 20 + (b.Size-120)/2
			if m1 > 20 {
				m1 = 20 + (m1-20)%300
			}
			base := len(content) - 20
			for k := 0; k < m1; k++ {
				content = append(content, content[base+k%20])
			}
			l2 := fresh(3)
			content = append(content, l2...)
			off2 := len(content) - start + 5 // starts 5 bytes before this block
			if b.Off > 0 && b.Off >= len(content)-start+1 && b.Off <= len(content) && b.Off <= 65535 {
				off2 = b.Off
			}
			if off2 > 65535 {
				off2 = 65535
			}
			m2 := 8
			base = len(content) - off2
			for k := 0; k < m2; k++ {
				content = append(content, content[base+k%off2])
			}
			t := fresh(b.Size - (len(content) - start))
			content = append(content, t...)
			d := append(ref.SerSeq(l1, 20, m1), ref.SerSeq(l2, off2, m2)...)
			d = append(d, ref.SerLast(t)...)
			blks = append(blks, ref.EncBlock{Data: d})
		default:
			lit, tail := 3, 5
			m := b.Size - lit - tail
			lits := fresh(lit)
			content = append(content, lits...)
			avail := len(content)
			if avail > 65535 {
				avail = 65535
			}
			off := 1
			switch kind {
			case "m1":
				off = 1
			case "mfar":
				off = avail
			case "mprev":
				off = lit + prevLen // the first byte of the previous block
			case "mstraddle":
				off = lit + 3 // starts 3 bytes before this block
			case "moff":
				off = b.Off
			}
			if off > avail {
				off = avail
			}
			if off < 1 {
				off = 1
			}
			base := len(content) - off
			for k := 0; k < m; k++ {
				content = append(content, content[base+k%off])
			}
			t := fresh(tail)
			content = append(content, t...)
			d := append(ref.SerSeq(lits, off, m), ref.SerLast(t)...)
			blks = append(blks, ref.EncBlock{Data: d})
		}
		prevLen = len(content) - start
	}
	o := ref.FrameOpts{Code: p.Code, Indep: false, BlockCS: p.BCS, ContCS: p.CCS}
	return ref.EncodeFrame(o, blks, content), content
}
