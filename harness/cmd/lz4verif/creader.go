package main

import (
	"bytes"
	"encoding/json"
	"flag"
	"fmt"
	"io"
	"math/rand"
	"os"
	"time"

	lz4 "github.com/pierrec/lz4/v4"

	"lz4verif/ref"
)

func init() { register("cr-run", crRun) }

type crCase struct {
	ID       int       `json:"id"`
	Input    inputSpec `json:"input"`
	Opts     wopts     `json:"opts"`
	Reads    []int     `json:"reads"`              // buffer sizes, cyclic
	Frag     []int     `json:"frag,omitempty"`     // fragmentation of the source
	FailPos  int       `json:"failPos,omitempty"`  // the source fails after delivering this many bytes (0 = never, -1 = at once)
	FailKind int       `json:"failKind,omitempty"` // 0 plain error, 1 wraps io.EOF, 2 wraps io.ErrUnexpectedEOF
	Reapply  bool      `json:"reapply,omitempty"`  // apply the options a second time (Apply resets first)
	// Prelude: before the judged stream, the same object compresses PreLen bytes with block size code
	// PreCode completely, and is then Reset and re-configured (reuse of the encoder instance)
	PreCode int `json:"preCode,omitempty"`
	PreLen  int `json:"preLen,omitempty"`
	// PreCalls > 0: the earlier stream is abandoned after that many Read calls with PreBuf-byte buffers
	// (compressed bytes are then still parked in the overflow buffer) instead of being read to the end
	PreCalls int `json:"preCalls,omitempty"`
	PreBuf   int `json:"preBuf,omitempty"`
	// PreSize / PreBCS: the earlier stream announced this content size / had block checksums; the judged stream
	// withdraws them explicitly (SizeOption(0), BlockChecksumOption(false)) when its own options do not have them
	PreSize uint64 `json:"preSize,omitempty"`
	PreBCS  bool   `json:"preBCS,omitempty"`
}

// failingSource delivers data[:failPos] (with fragmentation) and then fails.
type failingSource struct {
	fragReader
	failPos int
	kind    int
}

func (f *failingSource) Read(p []byte) (int, error) {
	if f.failPos != 0 {
		lim := f.failPos
		if lim < 0 {
			lim = 0
		}
		if f.pos >= lim {
			return 0, injected(f.kind)
		}
		if len(p) > lim-f.pos {
			p = p[:lim-f.pos]
		}
	}
	return f.fragReader.Read(p)
}
func (f *failingSource) Close() error { return nil }

func crRun(args []string) error {
	fs := flag.NewFlagSet("cr-run", flag.ExitOnError)
	in := fs.String("cases", "", "")
	out := fs.String("out", "", "")
	wd := fs.Duration("watchdog", 60*time.Second, "")
	fs.Parse(args)
	w, err := newNDW(*out)
	if err != nil {
		return err
	}
	w.flush = true
	n := 0
	names := []string{"initial", "reading", "flushing", "done"}
	// the pool sensor of the pipeline checks: buffers are poisoned when they go back to the pool; a buffer written
	// after that, or put twice, is reported
	lz4.VerifSetHooks(dispatchHook, dispatchPool)
	err = readND(*in, func(line []byte) error {
		var c crCase
		if err := json.Unmarshal(line, &c); err != nil {
			return err
		}
		n++
		input := c.Input.build()
		type res struct {
			calls    []rec
			out      []byte
			panicked string
			reset    rec
		}
		done := make(chan res, 1)
		pl := &pipeLog{chans: map[uintptr]int{}, bufs: map[uintptr]int{}, poisoned: map[uintptr]int{}, rnd: rand.New(rand.NewSource(int64(c.ID))), poison: true, maxEv: 0}
		currentLog.Store(pl)
		go func() {
			var r res
			defer func() {
				if e := recover(); e != nil {
					r.panicked = fmt.Sprint(e)
				}
				done <- r
			}()
			src := &failingSource{fragReader: fragReader{data: input, pattern: c.Frag}, failPos: c.FailPos, kind: c.FailKind}
			zr := lz4.NewCompressingReader(src)
			if c.PreCode != 0 {
				pre := &failingSource{fragReader: fragReader{data: bytes.Repeat([]byte("prelude "), c.PreLen/8+1)[:c.PreLen]}}
				zr = lz4.NewCompressingReader(pre)
				_ = zr.Apply(lz4.BlockSizeOption(blockSizeOf(c.PreCode)))
				if c.PreSize > 0 {
					_ = zr.Apply(lz4.SizeOption(c.PreSize))
				}
				if c.PreBCS {
					_ = zr.Apply(lz4.BlockChecksumOption(true))
				}
				if c.PreCalls > 0 {
					pb := make([]byte, c.PreBuf)
					for k := 0; k < c.PreCalls; k++ {
						if _, err := zr.Read(pb); err != nil {
							break
						}
					}
				} else {
					_, _ = io.Copy(io.Discard, zr)
				}
				_, _, ovLen0, ovPos0 := zr.VerifState()
				zr.Reset(src)
				st, _, ovLen, ovPos := zr.VerifState()
				r.reset = rec{"st": names[st], "ovLen": ovLen, "ovPos": ovPos, "parked": ovLen0 - ovPos0}
			}
			var opts []lz4.Option
			if c.Opts.Code != 0 {
				opts = append(opts, lz4.BlockSizeOption(blockSizeOf(c.Opts.Code)))
			}
			opts = append(opts, lz4.BlockChecksumOption(c.Opts.BCS), lz4.ChecksumOption(c.Opts.CCS), lz4.CompressionLevelOption(levelOf(c.Opts.Level)))
			if c.Opts.Size != nil {
				opts = append(opts, lz4.SizeOption(*c.Opts.Size))
			} else if c.PreSize > 0 {
				opts = append(opts, lz4.SizeOption(0))
			}
			if err := zr.Apply(opts...); err != nil {
				r.panicked = "apply: " + err.Error()
				return
			}
			if c.Reapply {
				_ = zr.Apply(lz4.BlockChecksumOption(c.Opts.BCS))
			}
			var ob bytes.Buffer
			for k := 0; k < 1<<22; k++ {
				sz := c.Reads[k%len(c.Reads)]
				p := make([]byte, sz)
				got, err := zr.Read(p)
				st, dataPos, ovLen, ovPos := zr.VerifState()
				e := rec{"plen": sz, "n": got, "err": classify(err), "st": names[st], "dataPos": dataPos, "ovLen": ovLen, "ovPos": ovPos}
				if len(r.calls) < 3000 {
					r.calls = append(r.calls, e)
				}
				if got > 0 && got <= sz {
					ob.Write(p[:got])
				}
				if err != nil {
					// one more call: what does it say after the end?
					_, err2 := zr.Read(make([]byte, 8))
					r.calls = append(r.calls, rec{"plen": 8, "n": 0, "err": classify(err2), "st": "done", "dataPos": 0, "ovLen": 0, "ovPos": 0, "after": true})
					break
				}
				if sz == 0 && len(c.Reads) == 1 {
					break
				}
			}
			r.out = ob.Bytes()
		}()
		e := rec{"ev": "crun", "case": c.ID, "opts": optsRec(c.Opts), "inputLen": len(input), "block": blockBytes(c.Opts), "failPos": c.FailPos}
		poolState := func() []string {
			currentLog.Store(nil)
			pl.mu.Lock()
			defer pl.mu.Unlock()
			return append([]string{}, pl.badPut...)
		}
		select {
		case r := <-done:
			e["poison"] = poolState()
			p := ref.ParseFrame(r.out, true)
			e["calls"], e["panicked"], e["hung"] = r.calls, r.panicked, false
			if r.reset != nil {
				e["reset"] = r.reset
			}
			e["outLen"] = len(r.out)
			e["ref"] = refSummary(p, len(r.out))
			e["same"] = bytes.Equal(p.Content, input)
			e["prefixok"] = isPrefix(p.Content, input)
			e["small"] = len(r.out) <= smallFrame && len(input) <= smallFrame
			if len(r.out) <= smallFrame && len(input) <= smallFrame {
				e["bytes"] = ints(r.out)
				e["input"] = ints(input)
			}
			w.put(e)
		case <-time.After(*wd):
			e["calls"], e["panicked"], e["hung"] = []rec{}, "", true
			w.put(e)
			w.close()
			printJSON(map[string]int{"cases": n, "hung": 1})
			os.Exit(0)
		}
		return nil
	})
	if err != nil {
		return err
	}
	if err := w.close(); err != nil {
		return err
	}
	printJSON(map[string]int{"cases": n, "hung": 0})
	return nil
}

var _ = io.EOF
