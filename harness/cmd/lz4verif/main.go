// Command lz4verif is the Go side of the TLA+ conformance harness: it replays
// TLC-generated cases into pierrec/lz4 and records executions of pierrec/lz4 as ndjson
// traces for TLC to validate.  It is built from /repo's working tree (go.mod replace)
// with -tags verif, and a second time with -tags verif,noasm.
package main

import (
	"fmt"
	"os"
	"sort"
)

type command func(args []string) error

var commands = map[string]command{}

func register(name string, c command) { commands[name] = c }

func main() {
	if len(os.Args) < 2 {
		usage()
	}
	c, ok := commands[os.Args[1]]
	if !ok {
		usage()
	}
	if err := c(os.Args[2:]); err != nil {
		fmt.Fprintln(os.Stderr, "lz4verif:", err)
		os.Exit(2)
	}
}

func usage() {
	var names []string
	for n := range commands {
		names = append(names, n)
	}
	sort.Strings(names)
	fmt.Fprintln(os.Stderr, "usage: lz4verif <command> [flags]; commands:", names)
	os.Exit(2)
}
