package main

import "runtime"

type memStat struct {
	total uint64
	inuse uint64
}

func memBefore() memStat {
	runtime.GC()
	var m runtime.MemStats
	runtime.ReadMemStats(&m)
	return memStat{m.TotalAlloc, m.HeapInuse}
}

// memAfter reports how much was allocated since memBefore (cumulative bytes) and the heap in use now.
func memAfter(b memStat) rec {
	var m runtime.MemStats
	runtime.ReadMemStats(&m)
	return rec{"allocMiB": int((m.TotalAlloc - b.total) >> 20), "heapMiB": int(m.HeapInuse >> 20)}
}
