package main

import (
	"runtime"
	"sync/atomic"
	"time"
)

// memStat samples the heap in use while a case runs: C07 bounds the PEAK of live memory, not the
// cumulative allocation (pooled block buffers are legitimately recycled many times).
type memStat struct {
	base uint64
	peak uint64
	stop chan struct{}
	done chan struct{}
}

func memBefore() *memStat {
	runtime.GC()
	var m runtime.MemStats
	runtime.ReadMemStats(&m)
	s := &memStat{base: m.HeapInuse, peak: m.HeapInuse, stop: make(chan struct{}), done: make(chan struct{})}
	go func() {
		defer close(s.done)
		t := time.NewTicker(2 * time.Millisecond)
		defer t.Stop()
		for {
			select {
			case <-s.stop:
				return
			case <-t.C:
				var m runtime.MemStats
				runtime.ReadMemStats(&m)
				if m.HeapInuse > atomic.LoadUint64(&s.peak) {
					atomic.StoreUint64(&s.peak, m.HeapInuse)
				}
			}
		}
	}()
	return s
}

// memAfter reports the peak growth of the heap in use since memBefore, in MiB.
func memAfter(s *memStat) rec {
	close(s.stop)
	<-s.done
	var m runtime.MemStats
	runtime.ReadMemStats(&m)
	if m.HeapInuse > s.peak {
		s.peak = m.HeapInuse
	}
	grow := 0
	if s.peak > s.base {
		grow = int((s.peak - s.base) >> 20)
	}
	return rec{"allocMiB": grow, "heapMiB": int(m.HeapInuse >> 20)}
}
