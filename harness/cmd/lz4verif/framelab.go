package main

import (
	"bytes"
	"errors"
	"fmt"
	"io"
	"os"
	"runtime"
	"strings"
	"sync"
	"time"

	lz4 "github.com/pierrec/lz4/v4"
)

// ---------------------------------------------------------------------------------------
// Writer side

type wopts struct {
	Code    int     `json:"code"` // 4..7 block size code; 0 = leave the default
	BCS     bool    `json:"bcs"`
	CCS     bool    `json:"ccs"`
	Size    *uint64 `json:"size,omitempty"` // SizeOption value (nil = not applied)
	Level   int     `json:"level"`          // 0 = Fast, 1..9
	Conc    int     `json:"conc"`           // 1, 2, 4, ... ; 0 = GOMAXPROCS
	Legacy  bool    `json:"legacy"`
	Handler bool    `json:"handler"` // install an OnBlockDone callback
}

func blockSizeOf(code int) lz4.BlockSize {
	return map[int]lz4.BlockSize{4: lz4.Block64Kb, 5: lz4.Block256Kb, 6: lz4.Block1Mb, 7: lz4.Block4Mb}[code]
}

func blockBytes(o wopts) int {
	if o.Legacy {
		return 8 << 20
	}
	if o.Code == 0 {
		return 4 << 20
	}
	return int(blockSizeOf(o.Code))
}

func levelOf(l int) lz4.CompressionLevel {
	if l == 0 {
		return lz4.Fast
	}
	return lz4.CompressionLevel(1 << (8 + uint(l)))
}

func (o wopts) options(onBlock func(int)) []lz4.Option {
	var opts []lz4.Option
	if o.Code != 0 {
		opts = append(opts, lz4.BlockSizeOption(blockSizeOf(o.Code)))
	}
	opts = append(opts, lz4.BlockChecksumOption(o.BCS), lz4.ChecksumOption(o.CCS))
	if o.Size != nil {
		opts = append(opts, lz4.SizeOption(*o.Size))
	}
	opts = append(opts, lz4.CompressionLevelOption(levelOf(o.Level)))
	conc := o.Conc
	if conc == 0 {
		conc = -1
	}
	opts = append(opts, lz4.ConcurrencyOption(conc))
	if o.Legacy {
		opts = append(opts, lz4.LegacyOption(true))
	}
	if o.Handler {
		opts = append(opts, lz4.OnBlockDoneOption(onBlock))
	}
	return opts
}

const maxCallLog = 200

var errInjected = errors.New("verif: injected I/O failure")

// injectedError is an injected failure that also wraps an end-of-file class error, as a transport may
// report a broken connection ("connection reset: unexpected EOF"): it is a failure, not the end of the data.
type injectedError struct{ wrap error }

func (e *injectedError) Error() string        { return "verif: injected I/O failure: " + e.wrap.Error() }
func (e *injectedError) Is(target error) bool { return target == errInjected }
func (e *injectedError) Unwrap() error        { return e.wrap }

// injected returns the injected failure of the given kind: 0 plain, 1 wraps io.EOF, 2 wraps io.ErrUnexpectedEOF.
func injected(kind int) error {
	switch kind {
	case 1:
		return &injectedError{io.EOF}
	case 2:
		return &injectedError{io.ErrUnexpectedEOF}
	}
	return errInjected
}

// recSink records every Write call made on it; the failAt-th call (1-based) fails.
type recSink struct {
	mu      sync.Mutex // a concurrent Writer writes from its ordering goroutine
	buf     bytes.Buffer
	calls   []int
	fails   int // sink calls that returned the injected failure
	failAt  int
	once    bool // transient fault: only the failAt-th call fails
	atFail  int  // bytes in the sink when the fault happened (-1: no fault yet)
	limit   int
	runaway bool
	delay   time.Duration // slow sink: sleep this long in every Write
}

var errRunaway = errors.New("verif: sink limit exceeded (runaway writer)")

func (s *recSink) snapshot() (n, calls int) {
	s.mu.Lock()
	defer s.mu.Unlock()
	return s.buf.Len(), len(s.calls)
}

func (s *recSink) failed() int {
	s.mu.Lock()
	defer s.mu.Unlock()
	return s.fails
}

func (s *recSink) callSizes() []int {
	s.mu.Lock()
	defer s.mu.Unlock()
	return append([]int(nil), s.calls...)
}

func (s *recSink) bytes() []byte {
	s.mu.Lock()
	defer s.mu.Unlock()
	return append([]byte(nil), s.buf.Bytes()...)
}

func (s *recSink) Write(p []byte) (int, error) {
	if s.delay > 0 {
		time.Sleep(s.delay)
	}
	s.mu.Lock()
	defer s.mu.Unlock()
	s.calls = append(s.calls, len(p))
	if s.failAt > 0 && (len(s.calls) == s.failAt || (!s.once && len(s.calls) > s.failAt)) {
		if len(s.calls) == s.failAt {
			s.atFail = s.buf.Len()
		}
		s.fails++
		return 0, errInjected
	}
	if s.limit > 0 && s.buf.Len()+len(p) > s.limit {
		// a Writer that does not stop writing: make it fail instead of filling the disk/memory
		s.runaway = true
		return 0, errRunaway
	}
	return s.buf.Write(p)
}

// fragReader serves a byte slice with a configurable fragmentation pattern and an optional
// failure at the k-th Read call.
type fragReader struct {
	mu      sync.Mutex // a concurrent Reader reads the source from its own goroutine
	data    []byte
	pos     int
	pattern []int // chunk sizes, cyclic; 0 entries produce (0, nil) reads; empty = as much as asked
	k       int
	eofWith bool // return the last data together with io.EOF
	failAt  int
	calls   int
	delay   time.Duration // slow source
	kind    int           // kind of the injected failure (see injected)
	once    bool          // only the failAt-th call fails
}

// seekFrag is a fragReader that can also seek and tell how much is left, like a bytes.Reader (or, for Seek, a file).
type seekFrag struct{ *fragReader }

func (s seekFrag) Seek(off int64, whence int) (int64, error) {
	s.mu.Lock()
	defer s.mu.Unlock()
	var p int64
	switch whence {
	case io.SeekStart:
		p = off
	case io.SeekCurrent:
		p = int64(s.pos) + off
	case io.SeekEnd:
		p = int64(len(s.data)) + off
	}
	if p < 0 {
		return 0, errors.New("verif: negative position")
	}
	s.pos = int(p)
	return p, nil
}

// Len is what is left to read (bytes.Reader, bytes.Buffer and strings.Reader have it).
func (s seekFrag) Len() int {
	s.mu.Lock()
	defer s.mu.Unlock()
	if s.pos >= len(s.data) {
		return 0
	}
	return len(s.data) - s.pos
}

func srcPos(f *fragReader) int {
	p, _ := f.position()
	return p
}

func (f *fragReader) position() (pos, calls int) {
	f.mu.Lock()
	defer f.mu.Unlock()
	return f.pos, f.calls
}

func (f *fragReader) Read(p []byte) (int, error) {
	if f.delay > 0 {
		time.Sleep(f.delay)
	}
	f.mu.Lock()
	defer f.mu.Unlock()
	f.calls++
	if f.failAt > 0 && (f.calls == f.failAt || (!f.once && f.calls > f.failAt)) {
		return 0, injected(f.kind)
	}
	if len(p) == 0 {
		return 0, nil
	}
	n := len(p)
	if len(f.pattern) > 0 {
		c := f.pattern[f.k%len(f.pattern)]
		f.k++
		if c == 0 {
			return 0, nil
		}
		if c < n {
			n = c
		}
	}
	if f.pos >= len(f.data) {
		return 0, io.EOF
	}
	n = copy(p[:n], f.data[f.pos:])
	f.pos += n
	if f.eofWith && f.pos >= len(f.data) {
		return n, io.EOF
	}
	return n, nil
}

type wcall struct {
	Op   string `json:"op"` // write | flush | readfrom | close | reset | apply | write0
	N    int    `json:"n,omitempty"`
	Frag []int  `json:"frag,omitempty"`
	EOFw bool   `json:"eofw,omitempty"`
	Fail int    `json:"fail,omitempty"` // readfrom: source fails at this call
}

type callRes struct {
	Op    string `json:"op"`
	N     int    `json:"n"`     // bytes requested (write) or read (readfrom)
	Ret   int    `json:"ret"`   // returned count
	Err   string `json:"err"`   // error class
	Sink  int    `json:"sink"`  // sink length after the call
	St    string `json:"st"`    // lifecycle state after the call (verif accessor)
	Fails int    `json:"fails"` // sink calls that have failed so far (cumulative)
	Calls int    `json:"calls"`
	// Flush on a sequential Writer: decoded length of the sink so far, and whether it equals
	// the input accepted so far
	Dec     int  `json:"dec"`
	DecSame bool `json:"decsame"`
}

func classify(err error) string {
	switch {
	case err == nil:
		return "none"
	case err == io.EOF:
		return "eof"
	case errors.Is(err, errInjected):
		return "injected"
	case errors.Is(err, io.ErrUnexpectedEOF):
		return "ueof"
	case errors.Is(err, io.EOF):
		return "eof-wrapped"
	case errors.Is(err, lz4.ErrInvalidFrame):
		return "magic"
	case errors.Is(err, lz4.ErrInvalidHeaderChecksum):
		return "hc"
	case errors.Is(err, lz4.ErrOptionInvalidBlockSize):
		return "bd"
	case errors.Is(err, lz4.ErrInvalidBlockChecksum):
		return "blockcs"
	case errors.Is(err, lz4.ErrInvalidFrameChecksum):
		return "contentcs"
	case errors.Is(err, lz4.ErrInvalidSourceShortBuffer):
		return "badblock"
	case errors.Is(err, lz4.ErrInternalUnhandledState):
		return "state"
	case errors.Is(err, lz4.ErrOptionClosedOrError):
		return "optclosed"
	case errors.Is(err, lz4.ErrWriterClosed):
		return "closed"
	}
	return "other"
}

// wseg is one sink segment: what a Writer wrote between creation / Reset and the next Reset.
type wseg struct {
	SinkStart, SinkEnd int
	InStart, InEnd     int
}

// runWriter executes a call history on a Writer over the given input (consumed in order by
// write / readfrom calls, by the count each call reports) and returns the per-call results
// and the sink segments.
func runWriter(o wopts, input []byte, calls []wcall, sink *recSink, blocks *[]int, decode func(sinkSeg, in []byte) (int, bool)) (res []callRes, segs []wseg, panicked string) {
	pos := 0
	cur := wseg{}
	defer func() {
		if r := recover(); r != nil {
			panicked = fmt.Sprint(r)
		}
		cur.SinkEnd, _ = sink.snapshot()
		cur.InEnd = pos
		segs = append(segs, cur)
	}()
	zw := lz4.NewWriter(sink)
	var mu sync.Mutex
	onBlock := func(n int) {
		if blocks != nil {
			mu.Lock()
			*blocks = append(*blocks, n)
			mu.Unlock()
		}
	}
	aerr := zw.Apply(o.options(onBlock)...)
	s0, c0 := sink.snapshot()
	res = append(res, callRes{Op: "apply", Err: classify(aerr), Sink: s0, Calls: c0})
	for _, c := range calls {
		r := callRes{Op: c.Op}
		switch c.Op {
		case "write":
			n := c.N
			if n > len(input)-pos {
				n = len(input) - pos
			}
			r.N = n
			// io.Writer: Write must not retain p - hand over a copy and overwrite it as soon as the call
			// returns, as a caller reusing its buffer (io.Copy) would
			tmp := append([]byte(nil), input[pos:pos+n]...)
			ret, err := zw.Write(tmp)
			for i := range tmp {
				tmp[i] = 0xEE
			}
			r.Ret, r.Err = ret, classify(err)
			if ret > 0 && ret <= n {
				pos += ret
			}
		case "flush":
			r.Err = classify(zw.Flush())
			if o.Conc == 1 && decode != nil && r.Err == "none" {
				r.Dec, r.DecSame = decode(sink.bytes()[cur.SinkStart:], input[cur.InStart:pos])
			}
		case "readfrom":
			n := c.N
			if n <= 0 || n > len(input)-pos {
				n = len(input) - pos
			}
			src := &fragReader{data: input[pos : pos+n], pattern: c.Frag, eofWith: c.EOFw, failAt: c.Fail}
			ret, err := zw.ReadFrom(src)
			r.N, r.Ret, r.Err = n, int(ret), classify(err)
			if ret > 0 && int(ret) <= n {
				pos += int(ret)
			}
		case "close":
			r.Err = classify(zw.Close())
		case "reset":
			// Reset waits for the pipeline of the previous frame: take the boundary after it
			zw.Reset(sink)
			cur.SinkEnd, _ = sink.snapshot()
			cur.InEnd = pos
			segs = append(segs, cur)
			cur = wseg{SinkStart: cur.SinkEnd, InStart: pos}
		case "apply":
			if c.N >= 4 && c.N <= 7 {
				// re-configure: a different block size (only meaningful before the first write of a life)
				r.Err = classify(zw.Apply(lz4.BlockSizeOption(blockSizeOf(c.N))))
			} else if c.N == 100 || c.N == 101 {
				// re-configure: legacy format off / on
				r.Err = classify(zw.Apply(lz4.LegacyOption(c.N == 101)))
			} else if c.N == 200 || c.N == 201 {
				// re-configure: content size withdrawn / announced (77)
				r.Err = classify(zw.Apply(lz4.SizeOption(uint64(77 * (c.N - 200)))))
			} else if c.N == 210 || c.N == 211 {
				r.Err = classify(zw.Apply(lz4.BlockChecksumOption(c.N == 211)))
			} else if c.N == 220 || c.N == 221 {
				r.Err = classify(zw.Apply(lz4.ChecksumOption(c.N == 221)))
			} else {
				r.Err = classify(zw.Apply(lz4.BlockChecksumOption(o.BCS)))
			}
		}
		r.Sink, r.Calls = sink.snapshot()
		r.St, _ = zw.VerifState()
		r.Fails = sink.failed()
		res = append(res, r)
	}
	return res, segs, ""
}

// ---------------------------------------------------------------------------------------
// Reader side

type rcfg struct {
	Conc     int    `json:"conc"`
	Mode     string `json:"mode"` // read | writeto
	Bufs     []int  `json:"bufs,omitempty"`
	Frag     []int  `json:"frag,omitempty"`
	EOFw     bool   `json:"eofw,omitempty"`
	FailAt   int    `json:"failat,omitempty"`
	FailKind int    `json:"failkind,omitempty"` // 0 plain error, 1 wraps io.EOF, 2 wraps io.ErrUnexpectedEOF
	FailOnce bool   `json:"failonce,omitempty"` // transient: only the failat-th call fails
	Extra    int    `json:"extra,omitempty"`    // additional Read calls after the end (lifecycle)
	// Prime: a slow consumer.  Read mode: Read(nil) first (it starts the pipeline and returns), then wait
	// this many microseconds; WriteTo mode: every Write of the sink takes this long.
	Prime int `json:"prime,omitempty"`
	// PreBytes > 0: an earlier life of the same Reader - it reads exactly PreBytes bytes of the same stream with
	// PreBuf-byte buffers (no further Read: the end of the stream is never asked for), then Reset(source)
	PreBytes int `json:"preBytes,omitempty"`
	PreBuf   int `json:"preBuf,omitempty"`
	// PreSinkFail > 0 (with PreBytes > 0): the earlier life is a WriteTo whose sink fails after this many bytes
	PreSinkFail int `json:"preSinkFail,omitempty"`
	// PreFile: the earlier life reads this other stream to its end (io.Copy) before Reset(source)
	PreFile string `json:"preFile,omitempty"`
	PrePart int    `json:"prePart,omitempty"`
	PreRead bool   `json:"preRead,omitempty"` // the earlier life reads its stream to the end with Read calls (not WriteTo)
	// Seek: the source also implements io.Seeker (as a bytes.Reader or a file does; seeking past the end is not an error)
	Seek bool `json:"seek,omitempty"`
	// PreConc: the concurrency of the earlier life (the judged life re-applies Conc after Reset)
	PreConc int `json:"preConc,omitempty"`
}

type robs struct {
	Outcome   string // clean | error | panic | hang
	Err       string
	ErrText   string
	Delivered []byte
	Consumed  int // bytes taken from the source
	SrcCalls  int
	Leaked    int
	Calls     int
	ExtraErr  []string
	ExtraCons int
	Size      int
	Log       []rec // per-call log (op, sz, n, err, cons); nil when the run made too many calls
}

// lz4Goroutines counts goroutines whose stack contains a frame of the library.
func lz4Goroutines() int {
	buf := make([]byte, 1<<20)
	for {
		n := runtime.Stack(buf, true)
		if n < len(buf) {
			buf = buf[:n]
			break
		}
		buf = make([]byte, 2*len(buf))
	}
	c := 0
	for _, g := range strings.Split(string(buf), "\n\n") {
		if strings.Contains(g, "github.com/pierrec/lz4/v4") && !strings.Contains(g, "lz4Goroutines") && !strings.Contains(g, "runReader") {
			c++
		}
	}
	return c
}

func settledLeak(base int) int {
	n := 0
	for i := 0; i < 200; i++ {
		n = lz4Goroutines() - base
		if n <= 0 {
			return 0
		}
		time.Sleep(time.Duration(1+i/10) * time.Millisecond)
	}
	return n
}

type limitedBuf struct {
	bytes.Buffer
	limit int
	delay time.Duration
}

var errSinkLimit = errors.New("verif: output limit")

func (b *limitedBuf) Write(p []byte) (int, error) {
	if b.delay > 0 {
		time.Sleep(b.delay)
	}
	if b.limit > 0 && b.Len()+len(p) > b.limit {
		return 0, errSinkLimit
	}
	return b.Buffer.Write(p)
}

// runReader reads data through a Reader as configured.  A watchdog turns a call that does
// not return into outcome "hang" (the goroutine is abandoned).
func runReader(data []byte, cfg rcfg, watchdog time.Duration, outLimit int) robs {
	return runReaderDelay(data, cfg, watchdog, outLimit, 0)
}

// afterPreLife is called (once) between the earlier life of a Reader (rcfg.PreBytes) and the judged run.
var afterPreLife func()

func runReaderDelay(data []byte, cfg rcfg, watchdog time.Duration, outLimit int, delay time.Duration) robs {
	base := lz4Goroutines()
	done := make(chan robs, 1)
	src := &fragReader{data: data, pattern: cfg.Frag, eofWith: cfg.EOFw, failAt: cfg.FailAt, delay: delay, kind: cfg.FailKind, once: cfg.FailOnce}
	go func() {
		var o robs
		defer func() {
			if r := recover(); r != nil {
				o.Outcome, o.ErrText = "panic", fmt.Sprint(r)
			}
			o.Consumed, o.SrcCalls = src.position()
			done <- o
		}()
		var first io.Reader = src
		if cfg.Seek {
			first = seekFrag{src}
		}
		if cfg.PreBytes > 0 {
			first = &fragReader{data: data, pattern: cfg.Frag}
		}
		if cfg.PreFile != "" {
			other, err := os.ReadFile(cfg.PreFile)
			if err != nil {
				o.Outcome, o.Err, o.ErrText = "error", "other", "verif: "+err.Error()
				return
			}
			first = &fragReader{data: other}
		}
		zr := lz4.NewReader(first)
		if cfg.PreConc != 0 && (cfg.PreFile != "" || cfg.PreBytes > 0) {
			_ = zr.Apply(lz4.ConcurrencyOption(cfg.PreConc))
		} else if cfg.Conc != 1 {
			c := cfg.Conc
			if c == 0 {
				c = -1
			}
			if err := zr.Apply(lz4.ConcurrencyOption(c)); err != nil {
				o.Outcome, o.Err = "error", classify(err)
				return
			}
		}
		if cfg.PreFile != "" {
			if cfg.PrePart > 0 {
				// ... or only its first PrePart bytes, through Read (the stream is abandoned in the middle of a block)
				pbuf := make([]byte, 1000)
				for got := 0; got < cfg.PrePart; {
					want := cfg.PrePart - got
					if want > len(pbuf) {
						want = len(pbuf)
					}
					n, err := zr.Read(pbuf[:want])
					got += n
					if err != nil || n == 0 {
						break
					}
				}
			} else if cfg.PreRead {
				pbuf := make([]byte, 4096)
				for {
					if _, err := zr.Read(pbuf); err != nil {
						break
					}
				}
			} else {
				_, _ = io.Copy(io.Discard, zr)
			}
			zr.Reset(src)
		}
		if cfg.PreBytes > 0 && cfg.PreSinkFail > 0 {
			_, _ = zr.WriteTo(&limitedBuf{limit: cfg.PreSinkFail})
			if cfg.Seek {
				zr.Reset(seekFrag{src})
			} else {
				zr.Reset(src)
			}
			if afterPreLife != nil {
				afterPreLife()
				afterPreLife = nil
			}
		} else if cfg.PreBytes > 0 {
			pb := cfg.PreBuf
			if pb <= 0 {
				pb = 4096
			}
			pbuf := make([]byte, pb)
			for got := 0; got < cfg.PreBytes; {
				want := cfg.PreBytes - got
				if want > pb {
					want = pb
				}
				n, err := zr.Read(pbuf[:want])
				got += n
				if err != nil || n == 0 {
					break
				}
			}
			if cfg.Seek {
				zr.Reset(seekFrag{src})
			} else {
				zr.Reset(src)
			}
			if afterPreLife != nil {
				afterPreLife()
				afterPreLife = nil
			}
		}
		if cfg.PreConc != 0 && (cfg.PreFile != "" || cfg.PreBytes > 0) {
			c := cfg.Conc
			if c == 0 {
				c = -1
			}
			if err := zr.Apply(lz4.ConcurrencyOption(c)); err != nil {
				o.Outcome, o.Err = "error", classify(err)
				return
			}
		}
		out := &limitedBuf{limit: outLimit}
		var err error
		if cfg.Mode == "writeto" {
			out.delay = time.Duration(cfg.Prime) * time.Microsecond
			var wn int64
			wn, err = zr.WriteTo(out)
			o.Calls = 1
			o.Log = append(o.Log, rec{"op": "writeto", "sz": 0, "n": int(wn), "err": classify(err), "cons": srcPos(src)})
			if err == nil {
				o.Outcome = "clean"
			}
		} else {
			bufs := cfg.Bufs
			if len(bufs) == 0 {
				bufs = []int{4096}
			}
			var buf []byte
			if cfg.Prime > 0 {
				if n, e := zr.Read(nil); n != 0 || e != nil {
					o.Log = append(o.Log, rec{"op": "read", "sz": 0, "n": n, "err": classify(e), "cons": srcPos(src)})
				}
				time.Sleep(time.Duration(cfg.Prime) * time.Microsecond)
			}
			for k := 0; ; k++ {
				sz := bufs[k%len(bufs)]
				if cap(buf) < sz {
					buf = make([]byte, sz)
				}
				var n int
				before := srcPos(src)
				n, err = zr.Read(buf[:sz])
				o.Calls++
				if o.Calls <= maxCallLog {
					o.Log = append(o.Log, rec{"op": "read", "sz": sz, "n": n, "err": classify(err), "cons": srcPos(src) - before})
				}
				if n > 0 {
					if _, werr := out.Write(buf[:n]); werr != nil {
						err = werr
						break
					}
				}
				if err != nil {
					break
				}
				if n == 0 && sz > 0 && o.Calls > 1<<22 {
					err = errors.New("verif: no progress")
					break
				}
			}
			if err == io.EOF {
				o.Outcome = "clean"
			}
		}
		o.Delivered = out.Bytes()
		o.Size = zr.Size()
		if o.Outcome == "" {
			o.Outcome, o.Err, o.ErrText = "error", classify(err), err.Error()
			if len(o.ErrText) > 120 {
				o.ErrText = o.ErrText[:120]
			}
		} else {
			o.Err = "none"
		}
		// lifecycle: more reads after the end must keep saying io.EOF and not touch the source
		o.Consumed = srcPos(src)
		for i := 0; i < cfg.Extra; i++ {
			before := srcPos(src)
			n, e := zr.Read(make([]byte, 16))
			o.ExtraErr = append(o.ExtraErr, classify(e))
			o.Log = append(o.Log, rec{"op": "read", "sz": 16, "n": n, "err": classify(e), "cons": srcPos(src) - before})
		}
		o.ExtraCons = srcPos(src) - o.Consumed
	}()
	var o robs
	select {
	case o = <-done:
	case <-time.After(watchdog):
		buf := make([]byte, 1<<16)
		n := runtime.Stack(buf, true)
		return robs{Outcome: "hang", ErrText: string(buf[:n]), Consumed: srcPos(src)}
	}
	// the leak obligation of C08 covers: end of stream, source error, decoding error
	o.Leaked = settledLeak(base)
	return o
}
