package main

import (
	"bytes"
	"encoding/json"
	"flag"
	"fmt"
	"math/rand"
	"os"
	"reflect"
	"runtime"
	"sync"
	"sync/atomic"
	"time"
	"unsafe"

	lz4 "github.com/pierrec/lz4/v4"

	"lz4verif/ref"
)

func init() { register("pipe-run", pipeRun) }

// The hooks are installed once per process; which log they feed is switched atomically, because
// goroutines of a finished run may still be executing their last statements (and hooks) when the
// next run starts.
var currentLog atomic.Pointer[pipeLog]

func dispatchHook(site string, ch interface{}, buf []byte) {
	if p := currentLog.Load(); p != nil {
		p.hook(site, ch, buf)
	}
}

func dispatchPool(op string, buf []byte) {
	if p := currentLog.Load(); p != nil {
		p.pool(op, buf)
	}
}

// pipeLog is the installed pipeline hook: a totally ordered event log (global mutex + sequence
// number, never wall-clock time), seeded schedule perturbation, and pool poisoning.
type pipeLog struct {
	mu       sync.Mutex
	events   [][5]interface{} // seq, site, channel number, buffer number, len(buf)
	chans    map[uintptr]int
	bufs     map[uintptr]int
	poisoned map[uintptr]int // buffer address -> length poisoned
	badPut   []string        // poison violations: written after Put
	rnd      *rand.Rand
	perturb  int // 0..100: probability (percent) of a perturbation at a hook
	poison   bool
	maxEv    int
	nchan    int
	// schedule gate: when sched is set, a goroutine arriving at a gated hook waits until the next
	// entry of the schedule names its (site, channel); if the run cannot follow, it diverges and all
	// gates open
	muted    bool // an earlier life of the object is running: its hook events are not part of the judged run
	sched    []schedEv
	si       int
	diverged bool
	gateWait time.Duration
}

type schedEv struct {
	Site string `json:"site"`
	Ch   int    `json:"ch"`
}

var gatedSites = map[string]bool{"p.queue": true, "w.offer": true, "o.dequeue": true, "o.take": true, "o.write": true, "o.close": true,
	"w.closed": true, "w.released": true, "p.closeq": true, "p.closesend": true, "p.closed": true,
	"r.enqueue": true, "d.fail": true, "d.offer": true, "c.dequeue": true, "c.take": true, "c.deliver": true, "c.close": true,
	"u.recv": true, "r.finq": true, "r.finsend": true, "r.finwait": true, "r.finclose": true}

const poisonByte = 0xDB

func bufAddr(b []byte) uintptr {
	if cap(b) == 0 {
		return 0
	}
	return uintptr(unsafe.Pointer(&b[:1][0]))
}

func (p *pipeLog) hook(site string, ch interface{}, buf []byte) {
	var yield int
	p.mu.Lock()
	if p.muted {
		p.mu.Unlock()
		return
	}
	cn, bn := 0, 0
	if ch != nil {
		ptr := reflect.ValueOf(ch).Pointer()
		// these sites follow make(chan): the channel is new even if its address was used before
		created := site == "p.queue" || site == "p.closeq" || site == "r.enqueue" || site == "r.finq"
		if n, ok := p.chans[ptr]; ok && !created {
			cn = n
		} else {
			p.nchan++
			cn = p.nchan
			p.chans[ptr] = cn
		}
	}
	if a := bufAddr(buf); a != 0 {
		if n, ok := p.bufs[a]; ok {
			bn = n
		} else {
			bn = len(p.bufs) + 1
			p.bufs[a] = bn
		}
	}
	if p.sched != nil && gatedSites[site] && !p.diverged {
		deadline := time.Now().Add(p.gateWait)
		for !p.diverged && !(p.si < len(p.sched) && p.sched[p.si].Site == site && p.sched[p.si].Ch == cn) {
			if p.si >= len(p.sched) || time.Now().After(deadline) {
				p.diverged = true
				break
			}
			p.mu.Unlock()
			time.Sleep(20 * time.Microsecond)
			p.mu.Lock()
		}
		if !p.diverged {
			p.si++
		}
	}
	if len(p.events) < p.maxEv {
		p.events = append(p.events, [5]interface{}{len(p.events) + 1, site, cn, bn, len(buf)})
	}
	if p.perturb > 0 && p.rnd.Intn(100) < p.perturb {
		yield = 1 + p.rnd.Intn(3)
	}
	p.mu.Unlock()
	switch yield {
	case 1:
		runtime.Gosched()
	case 2:
		time.Sleep(time.Duration(1+yield) * 20 * time.Microsecond)
	case 3:
		for i := 0; i < 3; i++ {
			runtime.Gosched()
		}
	}
}

func (p *pipeLog) pool(op string, buf []byte) {
	a := bufAddr(buf)
	if a == 0 {
		return
	}
	full := buf[:cap(buf)]
	p.mu.Lock()
	bn, ok := p.bufs[a]
	if !ok {
		bn = len(p.bufs) + 1
		p.bufs[a] = bn
	}
	if len(p.events) < p.maxEv {
		p.events = append(p.events, [5]interface{}{len(p.events) + 1, "pool." + op, 0, bn, len(buf)})
	}
	if p.poison {
		switch op {
		case "put":
			if n, was := p.poisoned[a]; was && n == len(full) && n > 0 {
				// the same buffer is put twice without a Get in between (it would then be handed out twice):
				// it still holds nothing but the poison of the first Put
				all := true
				for i := 0; i < n; i++ {
					if full[i] != poisonByte {
						all = false
						break
					}
				}
				if all {
					p.badPut = append(p.badPut, fmt.Sprintf("buffer %d was returned to the pool twice", bn))
				}
			}
			p.poisoned[a] = len(full)
		case "get":
			if n, was := p.poisoned[a]; was {
				delete(p.poisoned, a)
				// sync.Pool may have dropped the buffer and the allocator reused its address for a fresh
				// (all-zero) one: only a mixture of poison and other bytes is a write after Put
				zero, bad := true, -1
				for i := 0; i < n && i < len(full); i++ {
					if full[i] != 0 {
						zero = false
					}
					if full[i] != poisonByte && bad < 0 {
						bad = i
					}
				}
				if bad >= 0 && !zero {
					p.badPut = append(p.badPut, fmt.Sprintf("buffer %d was written after it was returned to the pool (offset %d)", bn, bad))
				}
			}
		}
	}
	p.mu.Unlock()
	if p.poison {
		// outside the lock: the buffer belongs to the caller (get) or to nobody (put)
		fill := byte(poisonByte)
		if op == "get" {
			fill = 0xA5
		}
		for i := range full {
			full[i] = fill
		}
	}
}

type pipeCase struct {
	ID      int       `json:"id"`
	Kind    string    `json:"kind"` // writer | reader
	Input   inputSpec `json:"input"`
	Opts    wopts     `json:"opts"`
	Calls   []wcall   `json:"calls,omitempty"` // writer
	FailAt  int       `json:"failAt,omitempty"`
	Cfg     rcfg      `json:"cfg"`           // reader
	Ops     [][]int   `json:"ops,omitempty"` // reader: mutations of the frame (decode errors)
	Seed    int64     `json:"seed"`
	Perturb int       `json:"perturb"`
	Poison  bool      `json:"poison"`
	SlowIO  int       `json:"slowio,omitempty"` // microseconds of delay per sink/source call
	Sched   []schedEv `json:"sched,omitempty"`  // gate replay of a TLC behaviour
}

// pipeRun executes concurrent Writer / Reader scenarios with the hooks installed and records the event
// log together with the sensor readings (poison, goroutines left, hang, correctness of the result).
func pipeRun(args []string) error {
	fs := flag.NewFlagSet("pipe-run", flag.ExitOnError)
	in := fs.String("cases", "", "")
	out := fs.String("out", "", "")
	wd := fs.Duration("watchdog", 60*time.Second, "")
	fs.Parse(args)
	w, err := newNDW(*out)
	if err != nil {
		return err
	}
	w.flush = true
	n := 0
	lz4.VerifSetHooks(dispatchHook, dispatchPool)
	err = readND(*in, func(line []byte) error {
		var c pipeCase
		if err := json.Unmarshal(line, &c); err != nil {
			return err
		}
		n++
		input := c.Input.build()
		pl := &pipeLog{chans: map[uintptr]int{}, bufs: map[uintptr]int{}, poisoned: map[uintptr]int{}, rnd: rand.New(rand.NewSource(c.Seed)),
			perturb: c.Perturb, poison: c.Poison, maxEv: 4000, sched: c.Sched, gateWait: 5 * time.Second}
		base := lz4Goroutines()
		currentLog.Store(pl)
		e := rec{"ev": "pipe", "case": c.ID, "kind": c.Kind, "conc": c.Opts.Conc, "hung": false}
		done := make(chan struct{})
		var frame []byte
		go func() {
			defer close(done)
			if c.Kind == "writer" {
				sink := &recSink{failAt: c.FailAt, limit: 1 << 28, delay: time.Duration(c.SlowIO) * time.Microsecond}
				res, segs, panicked := runWriter(c.Opts, input, c.Calls, sink, nil, nil)
				b := sink.bytes()
				p := ref.ParseFrame(b, true)
				errs := []string{}
				for _, r := range res {
					errs = append(errs, r.Err)
				}
				e["errs"], e["panicked"] = errs, panicked
				e["status"], e["same"] = p.Status, bytes.Equal(p.Content, input)
				e["injected"] = c.FailAt > 0 && len(sink.callSizes()) >= c.FailAt
				e["nblocks"] = len(p.Blocks)
				e["sinkSha"] = shaID(b)
				e["sinkLen"] = len(b)
				// the frame of the last life of the Writer (bytes written after the last Reset)
				// (a history that ends with Reset has an empty last segment: the last one that holds bytes is meant)
				k := len(segs) - 1
				for k > 0 && (segs[k].SinkStart >= len(b) || segs[k].SinkEnd == segs[k].SinkStart) {
					k--
				}
				if k >= 0 && segs[k].SinkStart <= len(b) {
					end, inEnd := len(b), len(input)
					if k < len(segs)-1 {
						end, inEnd = segs[k].SinkEnd, segs[k].InEnd
					}
					last := b[segs[k].SinkStart:end]
					e["lastSegSha"] = shaID(last)
					lp := ref.ParseFrame(last, true)
					e["lastSegOK"] = lp.Status == "ok" && bytes.Equal(lp.Content, input[segs[k].InStart:inEnd])
				}
			} else {
				// the source frame is written without hooks interfering: sequential Writer
				currentLog.Store(nil)
				sink := &recSink{}
				o := c.Opts
				o.Conc = 1
				calls := c.Calls
				if len(calls) == 0 {
					calls = []wcall{{Op: "write", N: len(input)}, {Op: "close"}}
				}
				runWriter(o, input, calls, sink, nil, nil)
				frame = applyOps(sink.bytes(), c.Ops)
				currentLog.Store(pl)
				cfg := c.Cfg
				if cfg.PreBytes > 0 {
					// the earlier life: sensors on (pool poisoning), protocol events off until its goroutines are gone
					pl.mu.Lock()
					pl.muted = true
					pl.mu.Unlock()
					afterPreLife = func() {
						for i := 0; i < 200 && lz4Goroutines() > base; i++ {
							time.Sleep(10 * time.Millisecond)
						}
						pl.mu.Lock()
						pl.muted = false
						pl.mu.Unlock()
					}
				}
				ob := runReaderDelay(frame, cfg, *wd, 1<<28, time.Duration(c.SlowIO)*time.Microsecond)
				e["outcome"], e["err"] = ob.Outcome, ob.Err
				e["same"] = bytes.Equal(ob.Delivered, input)
				e["prefixok"] = isPrefix(ob.Delivered, input)
				e["panicked"] = ""
				if ob.Outcome == "panic" {
					e["panicked"] = ob.ErrText
				}
				if ob.Outcome == "hang" {
					e["hung"] = true
				}
				e["mutated"] = len(c.Ops) > 0
			}
		}()
		select {
		case <-done:
		case <-time.After(*wd + 5*time.Second):
			e["hung"] = true
		}
		if e["hung"] == true {
			buf := make([]byte, 1<<16)
			k := runtime.Stack(buf, true)
			fmt.Fprintf(os.Stderr, "lz4verif: pipe case %d hung:\n%s\n", c.ID, buf[:k])
		}
		// C08: no library goroutine is left once Close returned / the stream ended / an error was reported
		leaked := 0
		if e["hung"] != true {
			leaked = settledLeak(base)
		}
		currentLog.Store(nil)
		pl.mu.Lock()
		e["events"] = pl.events
		e["poison"] = pl.badPut
		if pl.badPut == nil {
			e["poison"] = []string{}
		}
		pl.mu.Unlock()
		e["leaked"] = leaked
		if c.Sched != nil {
			pl.mu.Lock()
			e["followed"] = !pl.diverged && pl.si == len(pl.sched)
			e["schedpos"] = pl.si
			pl.mu.Unlock()
		}
		w.put(e)
		if e["hung"] == true {
			w.close()
			printJSON(map[string]int{"cases": n, "hung": 1})
			os.Exit(0)
		}
		return nil
	})
	if err != nil {
		return err
	}
	if err := w.close(); err != nil {
		return err
	}
	printJSON(map[string]int{"cases": n, "hung": 0})
	return nil
}
