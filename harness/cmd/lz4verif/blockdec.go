package main

import (
	"bytes"
	"crypto/sha1"
	"encoding/hex"
	"encoding/json"
	"flag"
	"fmt"
	"runtime/debug"
	"strconv"
	"syscall"

	lz4 "github.com/pierrec/lz4/v4"
)

func init() {
	register("blk-run", blkRun)
	register("blk-mutate", blkMutate)
}

type dictSpec struct {
	Len   int   `json:"len"`
	A     int   `json:"a"`
	B     int   `json:"b"`
	Bytes []int `json:"bytes,omitempty"`
}

func (d dictSpec) build() []byte {
	if d.Bytes != nil {
		return bytesOf(d.Bytes)
	}
	b := make([]byte, d.Len)
	for i := range b {
		b[i] = byte((d.A*(i+1) + d.B) % 251) // LZ4Block.tla: DAt (1-based j)
	}
	return b
}

type decCase struct {
	ID     int             `json:"id"`
	Src    []int           `json:"src"`
	Dict   dictSpec        `json:"dict"`
	DstLen int             `json:"dstLen"`
	Kind   string          `json:"kind,omitempty"`
	Out    []int           `json:"out,omitempty"`
	Params json.RawMessage `json:"params,omitempty"`
	Origin string          `json:"origin,omitempty"`
}

// guarded is a mapping [data pages][PROT_NONE page]; place() returns a slice of the
// requested length that ends exactly at the protected page.
type guarded struct {
	mem  []byte
	data int
}

func newGuarded(size int) *guarded {
	pg := syscall.Getpagesize()
	data := (size + pg - 1) / pg * pg
	if data == 0 {
		data = pg
	}
	mem, err := syscall.Mmap(-1, 0, data+pg, syscall.PROT_READ|syscall.PROT_WRITE, syscall.MAP_ANON|syscall.MAP_PRIVATE)
	if err != nil {
		panic(err)
	}
	if err := syscall.Mprotect(mem[data:], syscall.PROT_NONE); err != nil {
		panic(err)
	}
	return &guarded{mem: mem, data: data}
}

func (g *guarded) place(n int) []byte {
	if n > g.data {
		panic("guarded buffer too small")
	}
	return g.mem[g.data-n : g.data : g.data]
}

// placeCap is place with spare capacity that lies in the protected page: Go code that relies on
// cap() rather than len() for its bounds faults when it touches src[len(src):cap(src)].
func (g *guarded) placeCap(n int) []byte {
	if n > g.data {
		panic("guarded buffer too small")
	}
	return g.mem[g.data-n : g.data : len(g.mem)]
}

const canary = 0xC5

type arena struct{ buf []byte }

// slot returns a sub-slice of length n with `spare` bytes of capacity beyond it, inside a
// canary-filled buffer; check() verifies that everything outside [0:n) is untouched.
func (a *arena) slot(n, spare int) []byte {
	const pre, post = 64, 64
	need := pre + n + spare + post
	if cap(a.buf) < need {
		a.buf = make([]byte, need)
	}
	a.buf = a.buf[:need]
	for i := range a.buf {
		a.buf[i] = canary
	}
	return a.buf[pre : pre+n : pre+n+spare]
}

func (a *arena) intact(n int) bool {
	const pre = 64
	for i, x := range a.buf {
		if (i < pre || i >= pre+n) && x != canary {
			return false
		}
	}
	return true
}

type decObs struct {
	Err      bool   `json:"err"`
	N        int    `json:"n"`
	Panicked string `json:"panicked"`
	Canary   bool   `json:"canary"`
	SrcOK    bool   `json:"srcok"`
	DictOK   bool   `json:"dictok"`
	out      []byte
}

func callDecode(src, dst, dict []byte) (n int, err error, panicked string) {
	defer func() {
		if r := recover(); r != nil {
			panicked = fmt.Sprint(r)
		}
	}()
	old := debug.SetPanicOnFault(true)
	defer debug.SetPanicOnFault(old)
	if len(dict) == 0 && len(src)%2 == 0 {
		n, err = lz4.UncompressBlock(src, dst)
	} else {
		n, err = lz4.UncompressBlockWithDict(src, dst, dict)
	}
	return
}

type decRunner struct {
	as, ad, ac arena
	gs, gd, gc *guarded
	fs, fd, fo [2][]byte
}

const flowSpare = 4096

// confined runs the decode twice with different bytes in the spare capacity of src and dict
// (src[len(src):cap(src)], dict[len(dict):cap(dict)]): the result and the whole destination must be
// the same, or the decoder read outside the slices.  (The portable decoder recovers from its own
// panics, a fault at a protected page included, so the guard layouts cannot see such a read.)
func (r *decRunner) confined(srcB, dictB []byte, dstLen int, fill func(i int) byte) bool {
	var res [2]struct {
		n   int
		err bool
		p   string
	}
	for k, pat := range []byte{0x11, 0xEE} {
		r.fs[k] = grow(r.fs[k], len(srcB)+flowSpare)
		r.fd[k] = grow(r.fd[k], len(dictB)+flowSpare)
		r.fo[k] = grow(r.fo[k], dstLen)
		copy(r.fs[k], srcB)
		copy(r.fd[k], dictB)
		for i := len(srcB); i < len(r.fs[k]); i++ {
			r.fs[k][i] = pat
		}
		for i := len(dictB); i < len(r.fd[k]); i++ {
			r.fd[k][i] = pat
		}
		for i := range r.fo[k] {
			r.fo[k][i] = fill(i)
		}
		n, err, p := callDecode(r.fs[k][:len(srcB)], r.fo[k], r.fd[k][:len(dictB)])
		res[k].n, res[k].err, res[k].p = n, err != nil, p
	}
	return res[0] == res[1] && bytes.Equal(r.fo[0], r.fo[1])
}

func grow(b []byte, n int) []byte {
	if cap(b) < n {
		return make([]byte, n)
	}
	return b[:n]
}

func newDecRunner() *decRunner {
	return &decRunner{gs: newGuarded(1 << 17), gd: newGuarded(1 << 17), gc: newGuarded(1 << 17)}
}

// one executes a single decode in the given memory layout with dst pre-filled.
func (r *decRunner) one(srcB, dictB []byte, dstLen int, layout string, fill func(i int) byte) decObs {
	var src, dst, dict []byte
	if layout == "guard" {
		src, dst, dict = r.gs.place(len(srcB)), r.gd.place(dstLen), r.gc.place(len(dictB))
	} else if layout == "guardcap" {
		src, dst, dict = r.gs.placeCap(len(srcB)), r.gd.placeCap(dstLen), r.gc.placeCap(len(dictB))
	} else if layout == "nil" {
		// a destination of length 0 given as nil (and a nil dictionary when it is empty)
		src, dst, dict = r.as.slot(len(srcB), 0), nil, r.ac.slot(len(dictB), 0)
		if len(dictB) == 0 {
			dict = nil
		}
	} else {
		src, dst, dict = r.as.slot(len(srcB), 7), r.ad.slot(dstLen, 64+dstLen%5), r.ac.slot(len(dictB), 3)
	}
	copy(src, srcB)
	copy(dict, dictB)
	for i := range dst {
		dst[i] = fill(i)
	}
	n, err, p := callDecode(src, dst, dict)
	o := decObs{Err: err != nil, N: n, Panicked: p, Canary: true}
	if layout == "canary" {
		o.Canary = r.as.intact(len(srcB)) && r.ad.intact(dstLen) && r.ac.intact(len(dictB))
	}
	o.SrcOK = bytes.Equal(src, srcB)
	o.DictOK = bytes.Equal(dict, dictB)
	if err == nil && p == "" && n >= 0 && n <= dstLen {
		o.out = append([]byte(nil), dst[:n]...)
	}
	return o
}

// blkRun executes every case in both memory layouts and with three destination pre-fills
// and writes one observation record per case.
func blkRun(args []string) error {
	fs := flag.NewFlagSet("blk-run", flag.ExitOnError)
	in := fs.String("cases", "", "")
	out := fs.String("out", "", "")
	full := fs.Bool("bytes", true, "include decoded bytes (else only their sha1)")
	fs.Parse(args)
	w, err := newNDW(*out)
	if err != nil {
		return err
	}
	w.flush = true // a decoder fault that cannot be recovered kills the process: keep what was observed
	r := newDecRunner()
	n := 0
	fills := []func(int) byte{
		func(int) byte { return 0 },
		func(int) byte { return 0xFF },
		func(i int) byte { return byte(i*131 + 89) },
	}
	var dictCache []byte
	var dictKey dictSpec
	err = readND(*in, func(line []byte) error {
		var c decCase
		if err := json.Unmarshal(line, &c); err != nil {
			return err
		}
		n++
		src := bytesOf(c.Src)
		if c.Dict.Bytes != nil || dictCache == nil || c.Dict.Len != dictKey.Len || c.Dict.A != dictKey.A || c.Dict.B != dictKey.B {
			dictCache = c.Dict.build()
			dictKey = c.Dict
			if c.Dict.Bytes != nil {
				dictKey.Len = -1
			}
		}
		dict := dictCache
		var first decObs
		stable, safe := true, true
		k := 0
		layouts := []string{"canary", "guard", "guardcap"}
		if c.DstLen == 0 {
			layouts = append(layouts, "nil")
		}
		for _, layout := range layouts {
			for _, f := range fills {
				o := r.one(src, dict, c.DstLen, layout, f)
				if k == 0 {
					first = o
				} else if o.Err != first.Err || o.Panicked != first.Panicked || (!o.Err && (o.N != first.N || !bytes.Equal(o.out, first.out))) {
					stable = false
				}
				if !o.Canary || !o.SrcOK || !o.DictOK {
					safe = false
					first.Canary = first.Canary && o.Canary
					first.SrcOK = first.SrcOK && o.SrcOK
					first.DictOK = first.DictOK && o.DictOK
				}
				if o.Panicked != "" && first.Panicked == "" {
					first.Panicked = layout + ": " + o.Panicked
				}
				k++
			}
		}
		_ = safe
		if !r.confined(src, dict, c.DstLen, fills[2]) {
			first.Canary = false
		}
		h := sha1.Sum(first.out)
		e := rec{"ev": "decode", "case": c.ID, "err": first.Err, "n": first.N, "panicked": first.Panicked,
			"canary": first.Canary, "srcok": first.SrcOK, "dictok": first.DictOK, "stable": stable,
			"sha": hex.EncodeToString(h[:8])}
		if *full {
			e["out"] = ints(first.out)
		}
		w.put(e)
		return nil
	})
	if err != nil {
		return err
	}
	if err := w.close(); err != nil {
		return err
	}
	printJSON(map[string]int{"cases": n, "executions": n * 11})
	return nil
}

// blkMutate derives adversarial cases from a file of base cases: every truncation of short
// blocks, single-byte substitutions from a class alphabet, destination-size changes,
// and seeded random blocks.  No expectation is attached: TLC is the oracle for them.
func blkMutate(args []string) error {
	fs := flag.NewFlagSet("blk-mutate", flag.ExitOnError)
	in := fs.String("cases", "", "")
	out := fs.String("out", "", "")
	seed := fs.Int64("seed", 1, "")
	n := fs.Int("n", 10000, "number of mutants")
	maxSrc := fs.Int("maxsrc", 120, "only mutate base blocks up to this size")
	fs.Parse(args)
	var base []decCase
	err := readND(*in, func(line []byte) error {
		var c decCase
		if err := json.Unmarshal(line, &c); err != nil {
			return err
		}
		if len(c.Src) <= *maxSrc && len(c.Out) <= 400 {
			c.Out, c.Params, c.Kind = nil, nil, ""
			base = append(base, c)
		}
		return nil
	})
	if err != nil {
		return err
	}
	if len(base) == 0 {
		return fmt.Errorf("no base cases")
	}
	w, err := newNDW(*out)
	if err != nil {
		return err
	}
	r := rng(*seed, "blk-mutate")
	alphabet := []int{0x00, 0x0F, 0xF0, 0xFF, 0x10, 0x1F, 0xEF, 0x01, 0x40, 0x4F}
	id := 1000000
	emit := func(c decCase, origin string) {
		id++
		c.ID = id
		c.Origin = origin
		if c.DstLen < 0 {
			c.DstLen = 0
		}
		w.put(c)
	}
	for w.n < *n {
		b := base[r.Intn(len(base))]
		c := b
		c.Src = append([]int(nil), b.Src...)
		switch r.Intn(6) {
		case 0: // all truncations of one short block
			if len(c.Src) <= 40 {
				for k := 0; k < len(b.Src); k++ {
					t := b
					t.Src = b.Src[:k]
					emit(t, "truncate")
				}
				continue
			}
			c.Src = c.Src[:r.Intn(len(c.Src)+1)]
			emit(c, "truncate")
		case 1, 2: // substitute one byte
			if len(c.Src) == 0 {
				continue
			}
			i := r.Intn(len(c.Src))
			if i > 0 && r.Intn(3) == 0 {
				i = r.Intn(minInt(len(c.Src), 4)) // token / length area
			}
			if r.Intn(3) == 0 {
				c.Src[i] = r.Intn(256)
			} else {
				c.Src[i] = alphabet[r.Intn(len(alphabet))]
			}
			emit(c, "substitute")
		case 3: // change the destination size
			c.DstLen += r.Intn(9) - 4
			emit(c, "dstlen")
		case 4: // splice two blocks
			o := base[r.Intn(len(base))]
			cut := r.Intn(len(c.Src) + 1)
			c.Src = append(c.Src[:cut:cut], o.Src[r.Intn(len(o.Src)+1):]...)
			if len(c.Src) > 400 {
				c.Src = c.Src[:400]
			}
			emit(c, "splice")
		default: // random bytes biased to small tokens
			m := r.Intn(40)
			c.Src = make([]int, m)
			for i := range c.Src {
				if r.Intn(2) == 0 {
					c.Src[i] = alphabet[r.Intn(len(alphabet))]
				} else {
					c.Src[i] = r.Intn(256)
				}
			}
			c.DstLen = r.Intn(80)
			emit(c, "random")
		}
	}
	if err := w.close(); err != nil {
		return err
	}
	printJSON(map[string]int{"cases": w.n})
	return nil
}

func minInt(a, b int) int {
	if a < b {
		return a
	}
	return b
}

func init() { register("blk-huge", blkHuge) }

// blkHuge decodes blocks whose length codes exceed 2^32 (16.9 MiB of 0xFF length bytes): a match length, a literal
// length and a match length of exactly 2^32 + 3.  Whatever the destination (sizes given on the command line), the
// decoded size does not fit: LZ4Block!Decode says "dst too small" / "truncated"; the decoder must return an error.
func blkHuge(args []string) error {
	const ff = (1<<32)/255 + 40
	run := make([]byte, ff)
	for i := range run {
		run[i] = 0xFF
	}
	blocks := map[string][]byte{
		// 1 literal, match (offset 1) of length 4 + 15 + 255*ff + 7, then the final literals
		"match": append(append([]byte{0x1F, 'a', 1, 0}, run...), 7, 0x50, 'v', 'w', 'x', 'y', 'z'),
		// literal run of length 15 + 255*ff + 7 announced, 100 bytes present
		"literals": append(append([]byte{0xF0}, run...), append([]byte{7}, make([]byte, 100)...)...),
	}
	// match length exactly 2^32 + 3: 4 + 15 + 255*k + r
	k, r := (1<<32+3-19)/255, (1<<32+3-19)%255
	blocks["match-2^32+3"] = append(append([]byte{0x1F, 'a', 1, 0}, run[:k]...), byte(r), 0x50, 'v', 'w', 'x', 'y', 'z')
	out := map[string]rec{}
	for name, src := range blocks {
		for _, a := range args {
			dl, err := strconv.Atoi(a)
			if err != nil {
				return err
			}
			dst := make([]byte, dl, dl+64)
			for i := range dst[:cap(dst)] {
				dst[:cap(dst)][i] = canary
			}
			n, derr, p := callDecode(src, dst, nil)
			intact := true
			for _, x := range dst[dl:cap(dst)] {
				if x != canary {
					intact = false
				}
			}
			out[fmt.Sprintf("%s/%d", name, dl)] = rec{"n": n, "err": derr != nil, "panicked": p, "canary": intact, "srcLen": len(src)}
		}
	}
	printJSON(out)
	return nil
}
