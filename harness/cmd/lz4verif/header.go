package main

import (
	"bytes"
	"encoding/json"
	"errors"
	"flag"
	"io"
	"sync"

	lz4 "github.com/pierrec/lz4/v4"
)

func init() {
	register("hdr-run", hdrRun)
}

type hdrRow struct {
	Flg    int   `json:"flg"`
	Bd     int   `json:"bd"`
	Size   []int `json:"size"` // 4 limbs or empty
	HC     int   `json:"hc"`
	CodeOK bool  `json:"codeok"`
}

// chunkReader returns at most n bytes per Read.
type chunkReader struct {
	r io.Reader
	n int
}

func (c *chunkReader) Read(p []byte) (int, error) {
	if len(p) > c.n {
		p = p[:c.n]
	}
	return c.r.Read(p)
}

func errClass(err error) string {
	switch {
	case err == nil:
		return "none"
	case errors.Is(err, lz4.ErrInvalidHeaderChecksum):
		return "hc"
	case errors.Is(err, lz4.ErrOptionInvalidBlockSize):
		return "bd"
	case errors.Is(err, lz4.ErrInvalidFrame):
		return "magic"
	case errors.Is(err, io.EOF):
		return "eof"
	case errors.Is(err, io.ErrUnexpectedEOF):
		return "ueof"
	}
	return "other:" + err.Error()
}

// hdrRun tries all 256 checksum bytes against every row of TLC's table, through
// ValidFrameHeader and through a Reader (Read + Size), and reports every disagreement with
// the acceptance rule of C19.
func hdrRun(args []string) error {
	fs := flag.NewFlagSet("hdr-run", flag.ExitOnError)
	in := fs.String("table", "", "")
	out := fs.String("out", "", "")
	trace := fs.String("trace", "", "ndjson of recorded hdr events for TLC")
	ntrace := fs.Int("ntrace", 2000, "")
	seed := fs.Int64("seed", 1, "")
	fs.Parse(args)
	var rows []hdrRow
	if err := readND(*in, func(line []byte) error {
		var r hdrRow
		if err := json.Unmarshal(line, &r); err != nil {
			return err
		}
		rows = append(rows, r)
		return nil
	}); err != nil {
		return err
	}
	w, err := newNDW(*out)
	if err != nil {
		return err
	}
	var mu sync.Mutex
	var wg sync.WaitGroup
	calls, readerRuns := make([]int, 16), make([]int, 16)
	for g := 0; g < 16; g++ {
		wg.Add(1)
		go func(g int) {
			defer wg.Done()
			buf := make([]byte, 16)
			shared := lz4.NewReader(nil) // reused through Reset: Size must not remember earlier frames
			for ri := g; ri < len(rows); ri += 16 {
				r := rows[ri]
				hdr := []byte{4, 34, 77, 24, byte(r.Flg), byte(r.Bd)}
				var size uint64
				if len(r.Size) == 4 {
					size = limbs64([4]int{r.Size[0], r.Size[1], r.Size[2], r.Size[3]})
					for k := 0; k < 8; k++ {
						hdr = append(hdr, byte(size>>(8*k)))
					}
				}
				hdr = append(hdr, 0)
				// an empty frame body: end mark, and the checksum of the empty content if announced
				body := []byte{0, 0, 0, 0}
				if r.Flg/4%2 == 1 {
					body = append(body, 0x05, 0x5D, 0xCC, 0x02)
				}
				for hc := 0; hc < 256; hc++ {
					hdr[len(hdr)-1] = byte(hc)
					accept := hc == r.HC && r.CodeOK
					ok, err := lz4.ValidFrameHeader(hdr)
					calls[g]++
					cls := errClass(err)
					good := true
					switch {
					case accept:
						good = ok && err == nil
					case hc != r.HC && r.CodeOK:
						good = !ok && cls == "hc"
					case hc == r.HC && !r.CodeOK:
						good = !ok && cls == "bd"
					default:
						good = !ok && (cls == "hc" || cls == "bd")
					}
					rd := rec(nil)
					// Reader path: every accepted header, and the rejects next to it
					if accept || hc == (r.HC+1)%256 || hc == 0 {
						readerRuns[g]++
						// the source hands the header over whole, byte by byte, or in 3-byte pieces
						var src io.Reader = bytes.NewReader(append(append([]byte{}, hdr...), body...))
						if k := readerRuns[g] % 3; k != 0 {
							src = &chunkReader{r: src, n: []int{1, 3}[k-1]}
						}
						zr := shared
						if readerRuns[g]%5 == 0 {
							zr = lz4.NewReader(src)
						} else {
							zr.Reset(src)
						}
						zcls, zsz := "", 0
						if readerRuns[g]%4 == 1 {
							// a zero-length Read first: it starts the Reader (the header is parsed and judged) like any other
							_, zerr := zr.Read(buf[:0])
							zcls, zsz = errClass(zerr), zr.Size()
						}
						n, rerr := zr.Read(buf)
						sz := zr.Size()
						rcls := errClass(rerr)
						if rcls == "hc" || rcls == "bd" {
							// a caller who asks again is told the same thing (the error is its own, distinct one on every call)
							if _, again := zr.Read(buf); errClass(again) != rcls {
								rcls = rcls + "-then-" + errClass(again)
							}
						}
						rd = rec{"n": n, "err": rcls, "size": sz}
						switch {
						case accept:
							want := 0
							if len(r.Size) == 4 {
								want = int(size)
							}
							good = good && n == 0 && rcls == "eof" && sz == want
						case hc != r.HC && r.CodeOK:
							good = good && rcls == "hc"
						case hc == r.HC && !r.CodeOK:
							good = good && rcls == "bd"
						default:
							good = good && (rcls == "hc" || rcls == "bd")
						}
						if zcls != "" {
							if accept {
								good = good && zcls == "none" && zsz == sz
							} else {
								good = good && (zcls == "hc" || zcls == "bd")
							}
							rd["zero"] = zcls
						}
					}
					if !good {
						mu.Lock()
						w.put(rec{"row": r, "hc": hc, "valid": ok, "err": cls, "reader": rd, "header": ints(hdr)})
						mu.Unlock()
					}
				}
			}
		}(g)
	}
	wg.Wait()
	// non-magic first words: (false, nil)
	bad := 0
	for _, m := range [][]byte{{0, 0, 0, 0}, {3, 34, 77, 24}, {5, 34, 77, 24}, {4, 34, 77, 25}, {4, 35, 77, 24}, {255, 255, 255, 255}, {2, 33, 76, 25}, {1, 33, 76, 24}} {
		h := append(append([]byte{}, m...), 0x64, 0x70, 0xb9)
		ok, err := lz4.ValidFrameHeader(h)
		if ok || err != nil {
			bad++
			w.put(rec{"row": "non-magic", "header": ints(h), "valid": ok, "err": errClass(err)})
		}
	}
	if *trace != "" {
		tw, err := newNDW(*trace)
		if err != nil {
			return err
		}
		r := rng(*seed, "hdr-trace")
		for c := 1; c <= *ntrace; c++ {
			row := rows[r.Intn(len(rows))]
			hc := row.HC
			if r.Intn(2) == 0 {
				hc = r.Intn(256)
			}
			b := []byte{4, 34, 77, 24, byte(row.Flg), byte(row.Bd)}
			if c%97 == 0 {
				b[r.Intn(4)] ^= byte(1 << uint(r.Intn(8))) // a neighbour of the magic number
			}
			if len(row.Size) == 4 {
				size := limbs64([4]int{row.Size[0], row.Size[1], row.Size[2], row.Size[3]})
				for k := 0; k < 8; k++ {
					b = append(b, byte(size>>(8*k)))
				}
			}
			b = append(b, byte(hc), 0, 0, 0, 0)
			if row.Flg/4%2 == 1 {
				b = append(b, 0x05, 0x5D, 0xCC, 0x02)
			}
			ok, err := lz4.ValidFrameHeader(b)
			zr := lz4.NewReader(bytes.NewReader(b))
			_, rerr := zr.Read(make([]byte, 8))
			tw.put(rec{"ev": "hdr", "case": c, "bytes": ints(b), "valid": ok, "err": errClass(err), "rerr": errClass(rerr),
				"size": u64limbs(uint64(zr.Size()))})
		}
		if err := tw.close(); err != nil {
			return err
		}
	}
	tc, tr := 0, 0
	for g := range calls {
		tc += calls[g]
		tr += readerRuns[g]
	}
	if err := w.close(); err != nil {
		return err
	}
	printJSON(map[string]int{"rows": len(rows), "calls": tc + 8, "reader_runs": tr, "mismatches": w.n})
	return nil
}
