package ref

// FrameBlock is the stored size and raw flag of one data block.
type FrameBlock struct {
	Size int  `json:"size"`
	Raw  bool `json:"raw"`
	Dec  int  `json:"dec"` // decoded length (-1 when the block was not decoded)
}

// FrameResult mirrors LZ4Frame.tla: R(status, content, consumed, hdr, blocks), plus the
// claimed/reference checksum pairs used by the field-level checks.
type FrameResult struct {
	Status   string
	Content  []byte
	Consumed int
	Flg, Bd  int
	HasSize  bool
	Csize    uint64
	Blocks   []FrameBlock
	Legacy   bool
	HeaderAt int // index just after the header (0 when no header was read)
	// LinkedOK (diagnosis only, not part of LZ4Frame.tla's result): the legacy block that made the status
	// bad_block decodes when the preceding content is offered as its dictionary, i.e. it is only bad because
	// a match reaches into the previous block
	LinkedOK bool
}

var (
	frameMagic  = [4]byte{4, 34, 77, 24}
	legacyMagic = [4]byte{2, 33, 76, 24}
)

func has(s []byte, i, n int) bool { return i+n <= len(s) }

func low31(s []byte, i int) int {
	return int(s[i]) + 256*int(s[i+1]) + 65536*int(s[i+2]) + 16777216*int(s[i+3]%128)
}
func topBit(s []byte, i int) bool { return s[i+3] >= 128 }
func word(s []byte, i int) uint32 { return le32(s, i) }
func is4(s []byte, i int, m [4]byte) bool {
	return s[i] == m[0] && s[i+1] == m[1] && s[i+2] == m[2] && s[i+3] == m[3]
}
func isSkip(s []byte, i int) bool {
	return s[i] >= 80 && s[i] <= 95 && s[i+1] == 42 && s[i+2] == 77 && s[i+3] == 24
}

// MaxBlockOf is LZ4Frame.tla: MaxBlockOf.
func MaxBlockOf(code int) int {
	switch code {
	case 4:
		return 65536
	case 5:
		return 262144
	case 6:
		return 1048576
	case 7:
		return 4194304
	}
	return 0
}

const legacyBlock = 8388608

// HeaderChecksum is LZ4Frame.tla: HeaderChecksum.
func HeaderChecksum(desc []byte) byte { return byte(XXH32(desc) >> 8) }

func window(content []byte) []byte {
	if len(content) <= 65536 {
		return content
	}
	return content[len(content)-65536:]
}

// ParseFrame is LZ4Frame.tla: Parse(s, strict).  Indices are 0-based; Consumed counts bytes.
func ParseFrame(s []byte, strict bool) FrameResult {
	i := 0
	for {
		if i == len(s) {
			return FrameResult{Status: "empty", Consumed: len(s)}
		}
		if !has(s, i, 4) {
			return FrameResult{Status: "truncated", Consumed: len(s)}
		}
		if isSkip(s, i) {
			if !has(s, i+4, 4) {
				return FrameResult{Status: "truncated", Consumed: len(s)}
			}
			if topBit(s, i+4) || !has(s, i+8, low31(s, i+4)) {
				return FrameResult{Status: "truncated", Consumed: len(s)}
			}
			i += 8 + low31(s, i+4)
			continue
		}
		break
	}
	if is4(s, i, legacyMagic) {
		return legacyBlocks(s, i+4)
	}
	if !is4(s, i, frameMagic) {
		return FrameResult{Status: "bad_magic", Consumed: i + 4}
	}
	if !has(s, i+4, 3) {
		return FrameResult{Status: "truncated", Consumed: len(s)}
	}
	flg, bd := int(s[i+4]), int(s[i+5])
	dl := 2
	if flg/8%2 == 1 {
		dl = 10
	}
	if !has(s, i+4, dl+1) {
		return FrameResult{Status: "truncated", Consumed: len(s)}
	}
	desc := s[i+4 : i+4+dl]
	hc := s[i+4+dl]
	r := FrameResult{Flg: flg, Bd: bd}
	if dl == 10 {
		r.HasSize = true
		for k := 0; k < 8; k++ {
			r.Csize |= uint64(s[i+6+k]) << (8 * k)
		}
	}
	at := i + 4 + dl + 1 // bytes consumed including HC
	r.Consumed = at
	r.HeaderAt = at
	fail := func(st string) FrameResult { r.Status = st; return r }
	switch {
	case hc != HeaderChecksum(desc):
		return fail("bad_hc")
	case MaxBlockOf(bd/16%8) == 0:
		return fail("bad_bd")
	case strict && flg/64 != 1:
		return fail("bad_version")
	case strict && (flg/2%2 == 1 || bd >= 128 || bd%16 != 0):
		return fail("reserved")
	case strict && flg%2 == 1:
		return fail("dictid")
	}
	return frameBlocks(s, at, r, strict)
}

func frameBlocks(s []byte, i int, r FrameResult, strict bool) FrameResult {
	bcs := r.Flg/16%2 == 1
	ccs := r.Flg/4%2 == 1
	indep := r.Flg/32%2 == 1
	maxb := MaxBlockOf(r.Bd / 16 % 8)
	done := func(st string, consumed int) FrameResult { r.Status = st; r.Consumed = consumed; return r }
	for {
		if !has(s, i, 4) {
			return done("truncated", len(s))
		}
		if word(s, i) == 0 {
			end := i + 4
			if ccs {
				if !has(s, i+4, 4) {
					return done("truncated", len(s))
				}
				if word(s, i+4) != XXH32(r.Content) {
					return done("bad_cc", i+8)
				}
				end = i + 8
			}
			return done("ok", end)
		}
		size, raw := low31(s, i), topBit(s, i)
		d0 := i + 4
		if size > maxb {
			return done("block_too_big", i+4)
		}
		if !has(s, d0, size) {
			return done("truncated", len(s))
		}
		if bcs && !has(s, d0+size, 4) {
			return done("truncated", len(s))
		}
		data := s[d0 : d0+size]
		next := d0 + size
		if bcs {
			next += 4
		}
		r.Blocks = append(r.Blocks, FrameBlock{size, raw, -1})
		if bcs && word(s, d0+size) != XXH32(data) {
			return done("bad_block_cs", next)
		}
		if raw {
			r.Content = append(r.Content, data...)
			r.Blocks[len(r.Blocks)-1].Dec = size
		} else {
			var dict []byte
			if !indep {
				dict = append([]byte(nil), window(r.Content)...)
			}
			dec, _ := DecodeBlock(data, dict, maxb, true)
			if dec.Kind != "ok" {
				return done("bad_block", next)
			}
			r.Content = append(r.Content, dec.Out...)
			r.Blocks[len(r.Blocks)-1].Dec = len(dec.Out)
		}
		i = next
	}
}

func legacyBlocks(s []byte, i int) FrameResult {
	r := FrameResult{Legacy: true}
	done := func(st string, consumed int) FrameResult { r.Status = st; r.Consumed = consumed; return r }
	for {
		if i >= len(s) {
			return done("ok", len(s))
		}
		if !has(s, i, 4) {
			return done("truncated", len(s))
		}
		if is4(s, i, legacyMagic) {
			i += 4
			continue
		}
		if !topBit(s, i) && low31(s, i) == len(r.Content) {
			// kernel-style trailer: the total uncompressed size
			return done("ok", i+4)
		}
		size := low31(s, i)
		if topBit(s, i) || size > CompressBound(legacyBlock) {
			return done("block_too_big", i+4)
		}
		if !has(s, i+4, size) {
			return done("truncated", len(s))
		}
		dec, _ := DecodeBlock(s[i+4:i+4+size], nil, legacyBlock, true)
		r.Blocks = append(r.Blocks, FrameBlock{size, false, -1})
		if dec.Kind != "ok" {
			if len(r.Content) > 0 {
				d := r.Content
				if len(d) > 65536 {
					d = d[len(d)-65536:]
				}
				if dl, _ := DecodeBlock(s[i+4:i+4+size], d, legacyBlock, true); dl.Kind == "ok" {
					r.LinkedOK = true
				}
			}
			return done("bad_block", i+4+size)
		}
		r.Blocks[len(r.Blocks)-1].Dec = len(dec.Out)
		r.Content = append(r.Content, dec.Out...)
		i += 4 + size
	}
}

// ---- encoder (LZ4Frame.tla: EncodeHeader / EncodeBlock / EncodeFrame)

// FrameOpts are the descriptor options of an encoded frame.
type FrameOpts struct {
	Code    int
	Indep   bool
	BlockCS bool
	ContCS  bool
	HasSize bool
	Size    uint64
}

// EncBlock is a block to be stored: its stored bytes and the raw flag.
type EncBlock struct {
	Data []byte
	Raw  bool
}

func word32Bytes(n int, top bool) []byte {
	b := []byte{byte(n), byte(n >> 8), byte(n >> 16), byte(n >> 24)}
	if top {
		b[3] |= 128
	}
	return b
}

func u32Bytes(x uint32) []byte { return []byte{byte(x), byte(x >> 8), byte(x >> 16), byte(x >> 24)} }

// EncodeHeader is LZ4Frame.tla: EncodeHeader.
func EncodeHeader(o FrameOpts) []byte {
	flg := 64
	if o.Indep {
		flg += 32
	}
	if o.BlockCS {
		flg += 16
	}
	if o.HasSize {
		flg += 8
	}
	if o.ContCS {
		flg += 4
	}
	desc := []byte{byte(flg), byte(16 * o.Code)}
	if o.HasSize {
		for k := 0; k < 8; k++ {
			desc = append(desc, byte(o.Size>>(8*k)))
		}
	}
	out := append([]byte{}, frameMagic[:]...)
	out = append(out, desc...)
	return append(out, HeaderChecksum(desc))
}

// EncodeFrame is LZ4Frame.tla: EncodeFrame.
func EncodeFrame(o FrameOpts, blks []EncBlock, content []byte) []byte {
	out := EncodeHeader(o)
	for _, b := range blks {
		out = append(out, word32Bytes(len(b.Data), b.Raw)...)
		out = append(out, b.Data...)
		if o.BlockCS {
			out = append(out, u32Bytes(XXH32(b.Data))...)
		}
	}
	out = append(out, 0, 0, 0, 0)
	if o.ContCS {
		out = append(out, u32Bytes(XXH32(content))...)
	}
	return out
}

// ---- block encoder (LZ4Block.tla: SerSeq / SerLast), for the independent frame encoder

func lenBytes(r int) []byte {
	var b []byte
	for r >= 255 {
		b = append(b, 255)
		r -= 255
	}
	return append(b, byte(r))
}

func nib(v int) int {
	if v >= 15 {
		return 15
	}
	return v
}

// SerSeq is LZ4Block.tla: SerSeq.
func SerSeq(lits []byte, offset, mlen int) []byte {
	l, m := len(lits), mlen-4
	b := []byte{byte(16*nib(l) + nib(m))}
	if l >= 15 {
		b = append(b, lenBytes(l-15)...)
	}
	b = append(b, lits...)
	b = append(b, byte(offset%256), byte(offset/256))
	if m >= 15 {
		b = append(b, lenBytes(m-15)...)
	}
	return b
}

// SerLast is LZ4Block.tla: SerLast.
func SerLast(lits []byte) []byte {
	l := len(lits)
	b := []byte{byte(16 * nib(l))}
	if l >= 15 {
		b = append(b, lenBytes(l-15)...)
	}
	return append(b, lits...)
}
