// Package ref holds the reference functions of the conformance harness.
//
// They share no code with pierrec/lz4.  Each one is a transcription, operator by
// operator, of the TLA+ definition named in its comment, and every check that relies on
// one of them first has TLC recompute a seeded sample of its results from the TLA+ text
// (the "ref-conformance" step); a disagreement there is a machinery fault (exit 2).
package ref

import "math/bits"

const (
	p1 uint32 = 2654435761
	p2 uint32 = 2246822519
	p3 uint32 = 3266489917
	p4 uint32 = 668265263
	p5 uint32 = 374761393
)

func le32(s []byte, i int) uint32 {
	return uint32(s[i]) | uint32(s[i+1])<<8 | uint32(s[i+2])<<16 | uint32(s[i+3])<<24
}

// XXH32.tla: Round
func round(acc, w uint32) uint32 { return bits.RotateLeft32(acc+w*p2, 13) * p1 }

// XXH32.tla: InitLanes
func initLanes() [4]uint32 {
	a, b := p1, p2
	return [4]uint32{a + b, b, 0, 0 - a}
}

// XXH32.tla: Stripe
func stripe(v [4]uint32, s []byte, i int) [4]uint32 {
	return [4]uint32{round(v[0], le32(s, i)), round(v[1], le32(s, i+4)), round(v[2], le32(s, i+8)), round(v[3], le32(s, i+12))}
}

// XXH32.tla: Converge
func converge(v [4]uint32) uint32 {
	return bits.RotateLeft32(v[0], 1) + bits.RotateLeft32(v[1], 7) + bits.RotateLeft32(v[2], 12) + bits.RotateLeft32(v[3], 18)
}

// XXH32.tla: TailMix
func tailMix(h uint32, s []byte, i int) uint32 {
	for i+3 < len(s) {
		h = bits.RotateLeft32(h+le32(s, i)*p3, 17) * p4
		i += 4
	}
	for i < len(s) {
		h = bits.RotateLeft32(h+uint32(s[i])*p5, 11) * p1
		i++
	}
	return h
}

// XXH32.tla: Avalanche
func avalanche(h uint32) uint32 {
	h ^= h >> 15
	h *= p2
	h ^= h >> 13
	h *= p3
	h ^= h >> 16
	return h
}

// XXH32 is XXH32.tla: XXH32 (one-shot, seed 0).
func XXH32(s []byte) uint32 {
	n := len(s)
	ns := n / 16
	var h uint32
	if n >= 16 {
		v := initLanes()
		for k := 0; k < ns; k++ {
			v = stripe(v, s, 16*k)
		}
		h = converge(v)
	} else {
		h = p5
	}
	h += uint32(n)
	return avalanche(tailMix(h, s, 16*ns))
}

// Stream is XXH32.tla: the streaming machine [v, total, buf].
type Stream struct {
	V     [4]uint32
	Total uint64
	Buf   []byte
}

// NewStream is XXH32.tla: StReset.
func NewStream() *Stream { return &Stream{V: initLanes()} }

// Write is XXH32.tla: StWrite.
func (st *Stream) Write(chunk []byte) {
	st.Total += uint64(len(chunk))
	if len(st.Buf)+len(chunk) < 16 {
		st.Buf = append(st.Buf, chunk...)
		return
	}
	if m := len(st.Buf); m > 0 {
		fill := 16 - m
		st.Buf = append(st.Buf, chunk[:fill]...)
		st.V = stripe(st.V, st.Buf, 0)
		chunk = chunk[fill:]
	}
	ns := len(chunk) / 16
	for k := 0; k < ns; k++ {
		st.V = stripe(st.V, chunk, 16*k)
	}
	st.Buf = append(st.Buf[:0], chunk[16*ns:]...)
}

// SumOf is XXH32.tla: SumOf.
func SumOf(v [4]uint32, total uint64, buf []byte) uint32 {
	var h uint32
	if total >= 16 {
		h = converge(v)
	} else {
		h = p5
	}
	return avalanche(tailMix(h+uint32(total), buf, 0))
}

// Sum is XXH32.tla: StSum.
func (st *Stream) Sum() uint32 { return SumOf(st.V, st.Total, st.Buf) }

// ZeroLaneInput returns prefix ++ one 16-byte stripe such that lane `lane` of the accumulators is 0 after the
// stripe: round(acc, w) = rotl(acc + w*P2, 13) * P1 is 0 exactly when w = -acc * P2^-1 (mod 2^32).  Inputs like
// this one separate "the state word is zero" from "nothing was written yet".  prefix must be a multiple of 16 long.
func ZeroLaneInput(prefix []byte, lane int, fill byte) []byte {
	v := initLanes()
	for i := 0; i+16 <= len(prefix); i += 16 {
		v = stripe(v, prefix, i)
	}
	// inverse of the odd constant P2 modulo 2^32 (Newton iteration)
	inv := uint32(p2)
	for k := 0; k < 5; k++ {
		inv *= 2 - uint32(p2)*inv
	}
	w := (0 - v[lane]) * inv
	out := append([]byte(nil), prefix...)
	st := []byte{fill, fill, fill, fill, fill, fill, fill, fill, fill, fill, fill, fill, fill, fill, fill, fill}
	st[4*lane], st[4*lane+1], st[4*lane+2], st[4*lane+3] = byte(w), byte(w>>8), byte(w>>16), byte(w>>24)
	return append(out, st...)
}
