package ref

// Seq is one sequence of an LZ4 block: literal length, match offset, match length
// (Off = MLen = 0 for the final, literal-only sequence).
type Seq struct{ Lit, Off, MLen int }

// DecResult mirrors LZ4Block.tla: Res(kind, out, seqs).
type DecResult struct {
	Kind string
	Out  []byte
	Seqs []Seq
}

// LZ4Block.tla: ExtLen
func extLen(src []byte, i, v int) (int, int) {
	for {
		if i >= len(src) {
			return -1, 0
		}
		if src[i] == 255 {
			v += 255
			i++
			continue
		}
		return v + int(src[i]), i + 1
	}
}

// DecodeBlock is LZ4Block.tla: Decode(src, dict, dstLen) (indices are 0-based here).
// With keepOut false only the sequences and the output length are tracked (large blocks).
func DecodeBlock(src, dict []byte, dstLen int, keepOut bool) (r DecResult, outLen int) {
	i := 0
	var out []byte
	n := 0                     // Len(out)
	hist := func(j int) byte { // HistAt, 0-based j over dict ++ out
		if j < len(dict) {
			return dict[j]
		}
		return out[j-len(dict)]
	}
	res := func(kind string) (DecResult, int) {
		r.Kind = kind
		r.Out = out
		return r, n
	}
	for {
		if i >= len(src) {
			return res("other")
		}
		tok := int(src[i])
		L, M := tok/16, tok%16
		lit, ls := L, i+1
		if L == 15 {
			lit, ls = extLen(src, i+1, 15)
			if lit < 0 {
				return res("truncated")
			}
		}
		le2 := ls + lit
		if le2 > len(src) {
			return res("truncated")
		}
		if n+lit > dstLen {
			return res("overflow")
		}
		if keepOut {
			out = append(out, src[ls:le2]...)
		}
		n += lit
		if le2 >= len(src) {
			if M == 0 {
				r.Seqs = append(r.Seqs, Seq{lit, 0, 0})
				return res("ok")
			}
			return res("other")
		}
		if le2+1 >= len(src) {
			return res("truncated")
		}
		offset := int(src[le2]) + 256*int(src[le2+1])
		mlen, next := M+4, le2+2
		if M == 15 {
			mlen, next = extLen(src, le2+2, 19)
		}
		if offset == 0 {
			return res("zero_offset")
		}
		if mlen < 0 {
			return res("truncated")
		}
		if offset > n+len(dict) {
			return res("before_dict")
		}
		if n+mlen > dstLen {
			return res("overflow")
		}
		if keepOut {
			base := len(dict) + n - offset
			for k := 0; k < mlen; k++ {
				out = append(out, hist(base+k%offset))
			}
		}
		n += mlen
		r.Seqs = append(r.Seqs, Seq{lit, offset, mlen})
		i = next
	}
}

// CompressBound is LZ4Block.tla: CompressBound.
func CompressBound(n int) int { return n + n/255 + 16 }
