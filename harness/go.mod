module lz4verif

go 1.23

require github.com/pierrec/lz4/v4 v4.1.19

replace github.com/pierrec/lz4/v4 => /repo
